package eng

import (
	"fmt"
	"go/ast"
	"go/constant"
	"go/token"
	"go/types"
	"sort"

	"golang.org/x/tools/go/cfg"
	"golang.org/x/tools/go/packages"
)

// Graph is a node-level control-flow graph of one function body (declaration or literal),
// built from go/cfg. Every ast.Node that go/cfg puts in a block becomes a graph node; block
// entries are synthetic nodes. Conditional edges carry the facts known on them. Queries are
// reachability questions on the product of this graph with the valuation of the body's
// boolean flag variables (ESP-style: finite domain, no solver).
type Graph struct {
	P           *Prog
	Pkg         *packages.Package
	Info        *types.Info
	Fn          *Func
	Lit         *Lit // nil for a declaration body
	Body        *ast.BlockStmt
	Nodes       []*GNode
	Entry       *GNode
	Flags       []*types.Var            // tracked boolean locals
	aliases     map[*types.Var]ast.Expr // boolean locals that name a stable condition (see condAlias)
	assignCount map[*types.Var]int
	assumedFn   func(Fact) bool // set while a query with Assume runs
	flagIx      map[*types.Var]int
	enumIx      map[*types.Var]int             // tracked locals that only ever hold one of at most three constants: slot in the valuation
	enumVals    map[*types.Var][]string        // their values (constant.ExactString), state k+1 of the slot = enumVals[v][k]
	intFlag     map[*types.Var]bool            // tracked flags of integer type that only ever hold the constants 0 and 1
	iifeAssigns map[*ast.ExprStmt][]*types.Var // variables assigned inside a literal that the statement calls on the spot
	entryVals   map[*GNode]map[Val]bool        // valuations with which each node is reached from the entry (lazily, no assumption)
	seeding     bool
	nilIx       map[*types.Var]int // tracked locals of type error: the valuation holds the truth of `v != nil`
	evalAt      *GNode             // the node whose condition / assignment is being evaluated (for Fact.At)

	switchTag map[ast.Expr]ast.Expr // case expression -> tag expression (nil tag => tagless)
}

type GNode struct {
	ID    int
	Node  ast.Node   // nil for synthetic block-entry nodes
	Block *cfg.Block // owning block
	Succ  []*GEdge
	Pred  []*GEdge
	Exit  bool // ReturnStmt or no-return call
}

type GEdge struct {
	From, To *GNode
	Cond     ast.Expr // condition evaluated at From (nil for unconditional / opaque branches)
	Taken    bool     // which outcome of Cond this edge represents
	Tag      ast.Expr // for switch-case edges: Cond is a case expression compared with Tag
	Opaque   bool     // one of several nondeterministic alternatives (range, select, type switch)
}

// Fact is an atomic condition known to hold on an edge.
type Fact struct {
	X   ast.Expr // the atom
	Y   ast.Expr // for switch-case facts: X == Y (X is the tag)
	Pos bool     // atom holds (true) or its negation holds (false)
	At  *GNode   // the node at which the atom is evaluated (set when an assumption is consulted; may be nil)
}

func noReturnCall(info *types.Info, call *ast.CallExpr) bool {
	switch fun := ast.Unparen(call.Fun).(type) {
	case *ast.Ident:
		if b, ok := info.Uses[fun].(*types.Builtin); ok && b.Name() == "panic" {
			return true
		}
	case *ast.SelectorExpr:
		if fn, ok := info.Uses[fun.Sel].(*types.Func); ok && fn.Pkg() != nil {
			full := fn.Pkg().Path() + "." + fn.Name()
			switch full {
			case "os.Exit", "log.Fatal", "log.Fatalf", "log.Fatalln", "log.Panic", "log.Panicf",
				"github.com/deckhouse/deckhouse/pkg/log.Fatal", "github.com/deckhouse/deckhouse/pkg/log.Fatalf":
				return true
			}
		}
	}
	return false
}

// GraphOf returns the graph of a declared function body.
func (p *Prog) GraphOf(f *Func) *Graph {
	if f == nil || f.Decl.Body == nil {
		return nil
	}
	if g, ok := p.graphs[f.Decl]; ok {
		return g
	}
	g := p.buildGraph(f.Pkg, f, nil, f.Decl.Body)
	p.graphs[f.Decl] = g
	return g
}

// GraphOfLit returns the graph of a function literal body.
func (p *Prog) GraphOfLit(l *Lit) *Graph {
	if l == nil {
		return nil
	}
	if g, ok := p.graphs[l.Lit]; ok {
		return g
	}
	var pk *packages.Package
	if l.Outer != nil {
		pk = l.Outer.Pkg
	}
	g := p.buildGraph(pk, l.Outer, l, l.Lit.Body)
	p.graphs[l.Lit] = g
	return g
}

func (p *Prog) buildGraph(pk *packages.Package, f *Func, l *Lit, body *ast.BlockStmt) *Graph {
	info := pk.TypesInfo
	g := &Graph{P: p, Pkg: pk, Info: info, Fn: f, Lit: l, Body: body, flagIx: map[*types.Var]int{}, nilIx: map[*types.Var]int{}, enumIx: map[*types.Var]int{}, enumVals: map[*types.Var][]string{}, switchTag: map[ast.Expr]ast.Expr{}}
	c := cfg.New(body, func(call *ast.CallExpr) bool { return !noReturnCall(info, call) })

	// switch tags
	inspectNoLit(body, func(n ast.Node) bool {
		if sw, ok := n.(*ast.SwitchStmt); ok {
			for _, cl := range sw.Body.List {
				cc := cl.(*ast.CaseClause)
				for _, e := range cc.List {
					g.switchTag[e] = sw.Tag // may be nil
					if sw.Tag == nil {
						g.switchTag[e] = nil
					}
				}
			}
		}
		return true
	})

	entryOf := map[*cfg.Block]*GNode{}
	lastOf := map[*cfg.Block]*GNode{}
	newNode := func(b *cfg.Block, n ast.Node) *GNode {
		gn := &GNode{ID: len(g.Nodes), Node: n, Block: b}
		g.Nodes = append(g.Nodes, gn)
		return gn
	}
	link := func(e *GEdge) {
		e.From.Succ = append(e.From.Succ, e)
		e.To.Pred = append(e.To.Pred, e)
	}
	for _, b := range c.Blocks {
		en := newNode(b, nil)
		entryOf[b] = en
		prev := en
		for _, n := range b.Nodes {
			gn := newNode(b, n)
			link(&GEdge{From: prev, To: gn})
			prev = gn
		}
		lastOf[b] = prev
	}
	for _, b := range c.Blocks {
		last := lastOf[b]
		switch len(b.Succs) {
		case 0:
			last.Exit = true
		case 1:
			link(&GEdge{From: last, To: entryOf[b.Succs[0]]})
		case 2:
			var cond ast.Expr
			if e, ok := last.Node.(ast.Expr); ok && last.Node != nil {
				k := b.Succs[0].Kind
				if k == cfg.KindIfThen || k == cfg.KindForBody || (k == cfg.KindSwitchCaseBody && !isTypeSwitchClause(b.Succs[0].Stmt, body)) {
					cond = e
				}
			}
			if cond != nil {
				tag, isCase := g.switchTag[cond]
				if isCase && tag != nil {
					link(&GEdge{From: last, To: entryOf[b.Succs[0]], Cond: cond, Taken: true, Tag: tag})
					link(&GEdge{From: last, To: entryOf[b.Succs[1]], Cond: cond, Taken: false, Tag: tag})
				} else {
					link(&GEdge{From: last, To: entryOf[b.Succs[0]], Cond: cond, Taken: true})
					link(&GEdge{From: last, To: entryOf[b.Succs[1]], Cond: cond, Taken: false})
				}
			} else {
				link(&GEdge{From: last, To: entryOf[b.Succs[0]], Opaque: true})
				link(&GEdge{From: last, To: entryOf[b.Succs[1]], Opaque: true})
			}
		}
	}
	g.Entry = entryOf[c.Blocks[0]]
	g.findFlags()
	return g
}

func isTypeSwitchClause(s ast.Stmt, body *ast.BlockStmt) bool {
	cc, ok := s.(*ast.CaseClause)
	if !ok {
		return false
	}
	found := false
	inspectNoLit(body, func(n ast.Node) bool {
		if ts, ok := n.(*ast.TypeSwitchStmt); ok {
			for _, c := range ts.Body.List {
				if c == cc {
					found = true
				}
			}
		}
		return !found
	})
	return found
}

// inspectNoLit walks n without descending into function literals (the literal node itself is visited).
func inspectNoLit(n ast.Node, fn func(ast.Node) bool) {
	ast.Inspect(n, func(m ast.Node) bool {
		if m == nil {
			return false
		}
		if !fn(m) {
			return false
		}
		if _, ok := m.(*ast.FuncLit); ok && m != n {
			return false
		}
		return true
	})
}

// InspectNoLit is the exported form.
func InspectNoLit(n ast.Node, fn func(ast.Node) bool) { inspectNoLit(n, fn) }

// findFlags selects the boolean variables whose value can be tracked: variables of type bool
// that are assigned in this body, never have their address taken, and are not assigned in any
// nested or enclosing function literal other than this body.
func (g *Graph) findFlags() {
	info := g.Info
	cand := map[*types.Var]bool{}
	candNil := map[*types.Var]bool{}
	candNil2 := map[*types.Var]bool{} // other locals of a nilable type that the body compares with nil
	bad := map[*types.Var]bool{}
	nilTested := map[*types.Var]bool{}
	ast.Inspect(g.Body, func(m ast.Node) bool {
		if b, ok := m.(*ast.BinaryExpr); ok && (b.Op == token.EQL || b.Op == token.NEQ) {
			x, y := b.X, b.Y
			if g.isNilLit(x) {
				x, y = y, x
			}
			if g.isNilLit(y) {
				if id, ok := ast.Unparen(x).(*ast.Ident); ok {
					if v, ok := info.Uses[id].(*types.Var); ok && !v.IsField() {
						nilTested[v] = true
					}
				}
			}
		}
		return true
	})
	// a variable that is copied into (or from) a nil-tested one carries the same information
	for changed := true; changed; {
		changed = false
		ast.Inspect(g.Body, func(m ast.Node) bool {
			as, ok := m.(*ast.AssignStmt)
			if !ok || len(as.Lhs) != len(as.Rhs) {
				return true
			}
			for i := range as.Lhs {
				l, okL := ast.Unparen(as.Lhs[i]).(*ast.Ident)
				r, okR := ast.Unparen(as.Rhs[i]).(*ast.Ident)
				if !okL || !okR {
					continue
				}
				lv, _ := info.ObjectOf(l).(*types.Var)
				rv, _ := info.ObjectOf(r).(*types.Var)
				if lv == nil || rv == nil || lv.IsField() || rv.IsField() {
					continue
				}
				if nilTested[lv] != nilTested[rv] {
					nilTested[lv], nilTested[rv] = true, true
					changed = true
				}
			}
			return true
		})
	}
	// integer locals that are only ever assigned the constants 0 and 1 (a found-flag written as an offset)
	zeroOne := map[*types.Var]bool{}
	notZeroOne := map[*types.Var]bool{}
	g.intFlag = map[*types.Var]bool{}
	ast.Inspect(g.Body, func(m ast.Node) bool {
		mark := func(l ast.Expr, r ast.Expr, plain bool) {
			id, ok := ast.Unparen(l).(*ast.Ident)
			if !ok {
				return
			}
			var obj types.Object = info.Defs[id]
			if obj == nil {
				obj = info.Uses[id]
			}
			v, ok := obj.(*types.Var)
			if !ok || v.IsField() {
				return
			}
			if b, ok := v.Type().Underlying().(*types.Basic); !ok || b.Info()&types.IsInteger == 0 {
				return
			}
			if k, isC := ConstInt(info, r); plain && r != nil && isC && (k == 0 || k == 1) {
				zeroOne[v] = true
			} else {
				notZeroOne[v] = true
			}
		}
		switch t := m.(type) {
		case *ast.AssignStmt:
			for i, l := range t.Lhs {
				if len(t.Lhs) == len(t.Rhs) {
					mark(l, t.Rhs[i], t.Tok == token.ASSIGN || t.Tok == token.DEFINE)
				} else {
					mark(l, nil, false)
				}
			}
		case *ast.IncDecStmt:
			mark(t.X, nil, false)
		case *ast.RangeStmt:
			if t.Key != nil {
				mark(t.Key, nil, false)
			}
			if t.Value != nil {
				mark(t.Value, nil, false)
			}
		case *ast.ValueSpec:
			for i, nm := range t.Names {
				if len(t.Values) == len(t.Names) {
					mark(nm, t.Values[i], true)
				} else if len(t.Values) != 0 {
					mark(nm, nil, false)
				}
			}
		}
		return true
	})
	for v := range notZeroOne {
		delete(zeroOne, v)
	}
	note := func(e ast.Expr, here bool) {
		id, ok := ast.Unparen(e).(*ast.Ident)
		if !ok {
			return
		}
		var obj types.Object = info.Defs[id]
		if obj == nil {
			obj = info.Uses[id]
		}
		v, ok := obj.(*types.Var)
		if !ok || v.IsField() {
			return
		}
		isErr := types.Identical(v.Type(), types.Universe.Lookup("error").Type())
		if !isErr && nilTested[v] {
			switch v.Type().Underlying().(type) {
			case *types.Pointer, *types.Interface, *types.Map, *types.Slice, *types.Signature, *types.Chan:
				if here {
					candNil2[v] = true
				} else {
					bad[v] = true
				}
				return
			}
		}
		if b, ok := v.Type().Underlying().(*types.Basic); ok && b.Info()&types.IsInteger != 0 && zeroOne[v] {
			if here {
				cand[v] = true
				g.intFlag[v] = true
			} else {
				bad[v] = true
			}
			return
		}
		if b, ok := v.Type().Underlying().(*types.Basic); (!ok || b.Kind() != types.Bool) && !isErr {
			return
		}
		if v.Pkg() != nil && v.Parent() == v.Pkg().Scope() {
			return // package-level
		}
		if here {
			if isErr {
				candNil[v] = true
			} else {
				cand[v] = true
			}
		} else {
			bad[v] = true
		}
	}
	iife := map[*ast.FuncLit]*ast.ExprStmt{}
	g.iifeAssigns = map[*ast.ExprStmt][]*types.Var{}
	var walk func(n ast.Node, here bool)
	walk = func(n ast.Node, here bool) {
		ast.Inspect(n, func(m ast.Node) bool {
			switch t := m.(type) {
			case *ast.ExprStmt:
				// a literal that is called on the spot (`func() { ... }()`) runs as part of this body: what it assigns is
				// unknown after the statement, but the variable stays trackable
				if call, isCall := t.X.(*ast.CallExpr); isCall && here && len(call.Args) == 0 {
					if fl, isLit := call.Fun.(*ast.FuncLit); isLit {
						iife[fl] = t
					}
				}
			case *ast.FuncLit:
				if m != n {
					if st := iife[t]; st != nil {
						nested := false
						ast.Inspect(t.Body, func(x ast.Node) bool {
							switch y := x.(type) {
							case *ast.FuncLit:
								// a literal inside that assigns nothing declared outside of itself cannot touch a tracked variable
								ast.Inspect(y.Body, func(z ast.Node) bool {
									if as, ok := z.(*ast.AssignStmt); ok {
										for _, l := range as.Lhs {
											if id, ok := ast.Unparen(l).(*ast.Ident); ok {
												if v, ok := info.Uses[id].(*types.Var); ok && !v.IsField() && (v.Pos() < y.Pos() || v.Pos() > y.End()) {
													nested = true
												}
											}
										}
									}
									return true
								})
								return false
							case *ast.AssignStmt:
								for _, l := range y.Lhs {
									if id, ok := ast.Unparen(l).(*ast.Ident); ok {
										if v, ok := info.Uses[id].(*types.Var); ok && !v.IsField() {
											g.iifeAssigns[st] = append(g.iifeAssigns[st], v)
										}
									}
								}
							}
							return true
						})
						if !nested {
							// the variables it defines itself are its own; `&x` inside still disqualifies (walk below sees it)
							ast.Inspect(t.Body, func(x ast.Node) bool {
								if u, ok := x.(*ast.UnaryExpr); ok && u.Op == token.AND {
									if id, ok := ast.Unparen(u.X).(*ast.Ident); ok {
										if v, ok := info.Uses[id].(*types.Var); ok {
											bad[v] = true
										}
									}
								}
								return true
							})
							return false
						}
						delete(g.iifeAssigns, st)
					}
					walk(t.Body, false)
					return false
				}
			case *ast.AssignStmt:
				for _, l := range t.Lhs {
					note(l, here)
				}
			case *ast.ValueSpec:
				for _, nm := range t.Names {
					note(nm, here)
				}
			case *ast.UnaryExpr:
				if t.Op == token.AND {
					if id, ok := ast.Unparen(t.X).(*ast.Ident); ok {
						if v, ok := info.Uses[id].(*types.Var); ok {
							bad[v] = true
						}
					}
				}
			case *ast.RangeStmt:
				if t.Key != nil {
					note(t.Key, false)
				}
				if t.Value != nil {
					note(t.Value, false)
				}
			}
			return true
		})
	}
	walk(g.Body, true)
	// assignments in the enclosing functions (other than this body) disqualify captured flags only
	// if they can run while this body runs; we accept them: the flag is unknown at entry anyway.
	for _, n := range g.Nodes {
		_ = n
	}
	var flags []*types.Var
	for v := range cand {
		if !bad[v] {
			flags = append(flags, v)
		}
	}
	// deterministic order
	for i := 0; i < len(flags); i++ {
		for j := i + 1; j < len(flags); j++ {
			if flags[j].Pos() < flags[i].Pos() {
				flags[i], flags[j] = flags[j], flags[i]
			}
		}
	}
	if len(flags) > 12 {
		flags = flags[:12]
	}
	g.Flags = flags
	for i, v := range flags {
		g.flagIx[v] = i
	}
	// error-typed locals: nil-ness tracked in the remaining slots (an inlined helper hands its error over through
	// such locals: `t = err; break L; ...; if t != nil`)
	var nils []*types.Var
	for v := range candNil {
		if !bad[v] {
			nils = append(nils, v)
		}
	}
	sort.Slice(nils, func(i, j int) bool { return nils[i].Pos() < nils[j].Pos() })
	if len(nils) > maxTracked-len(flags) {
		nils = nils[:maxTracked-len(flags)]
	}
	var nils2 []*types.Var
	for v := range candNil2 {
		if !bad[v] {
			nils2 = append(nils2, v)
		}
	}
	sort.Slice(nils2, func(i, j int) bool { return nils2[i].Pos() < nils2[j].Pos() })
	if room := maxTracked - len(flags) - len(nils); len(nils2) > room {
		nils2 = nils2[:room]
	}
	nils = append(nils, nils2...)
	for i, v := range nils {
		g.nilIx[v] = len(flags) + i
	}
	// small enumerations: locals of a basic type (not bool) whose every assignment in this body is a constant, with at
	// most three distinct values (the zero value counts when the variable is declared without one), never assigned in
	// a nested literal, address never taken
	type ev struct {
		vals map[string]bool
		bad  bool
	}
	enums := map[*types.Var]*ev{}
	get := func(e ast.Expr) (*types.Var, *ev) {
		id, ok := ast.Unparen(e).(*ast.Ident)
		if !ok {
			return nil, nil
		}
		var obj types.Object = info.Defs[id]
		if obj == nil {
			obj = info.Uses[id]
		}
		v, ok := obj.(*types.Var)
		if !ok || v.IsField() || (v.Pkg() != nil && v.Parent() == v.Pkg().Scope()) {
			return nil, nil
		}
		b, ok := v.Type().Underlying().(*types.Basic)
		if !ok || b.Kind() == types.Bool || b.Info()&(types.IsInteger|types.IsString) == 0 {
			return nil, nil
		}
		if _, tracked := g.flagIx[v]; tracked {
			return nil, nil
		}
		x := enums[v]
		if x == nil {
			x = &ev{vals: map[string]bool{}}
			enums[v] = x
		}
		return v, x
	}
	var scan func(n ast.Node, here bool)
	scan = func(n ast.Node, here bool) {
		ast.Inspect(n, func(m ast.Node) bool {
			setc := func(l, r ast.Expr, plain bool) {
				_, x := get(l)
				if x == nil {
					return
				}
				if !here || !plain {
					x.bad = true
					return
				}
				if r == nil {
					x.vals["<zero>"] = true
					return
				}
				tv, ok := info.Types[r]
				if !ok || tv.Value == nil {
					x.bad = true
					return
				}
				x.vals[tv.Value.ExactString()] = true
			}
			switch t := m.(type) {
			case *ast.FuncLit:
				if m != n {
					scan(t.Body, false)
					return false
				}
			case *ast.AssignStmt:
				for i, l := range t.Lhs {
					if len(t.Lhs) == len(t.Rhs) {
						setc(l, t.Rhs[i], t.Tok == token.ASSIGN || t.Tok == token.DEFINE)
					} else {
						setc(l, nil, false)
					}
				}
			case *ast.IncDecStmt:
				setc(t.X, nil, false)
			case *ast.RangeStmt:
				if t.Key != nil {
					setc(t.Key, nil, false)
				}
				if t.Value != nil {
					setc(t.Value, nil, false)
				}
			case *ast.ValueSpec:
				for i, nm := range t.Names {
					if len(t.Values) == len(t.Names) {
						setc(nm, t.Values[i], true)
					} else if len(t.Values) == 0 {
						setc(nm, nil, true)
					} else {
						setc(nm, nil, false)
					}
				}
			case *ast.UnaryExpr:
				if t.Op == token.AND {
					if _, x := get(t.X); x != nil {
						x.bad = true
					}
				}
			}
			return true
		})
	}
	scan(g.Body, true)
	var evars []*types.Var
	for v, x := range enums {
		// declared in this body (a parameter or a captured variable can hold anything on entry)
		if x.bad || len(x.vals) == 0 || len(x.vals) > 3 || !(g.Body.Pos() <= v.Pos() && v.Pos() < g.Body.End()) {
			continue
		}
		evars = append(evars, v)
	}
	sort.Slice(evars, func(i, j int) bool { return evars[i].Pos() < evars[j].Pos() })
	used := len(flags) + len(nils)
	for _, v := range evars {
		if used >= maxTracked {
			break
		}
		var vals []string
		for k := range enums[v].vals {
			if k == "<zero>" {
				if b := v.Type().Underlying().(*types.Basic); b.Info()&types.IsString != 0 {
					k = `""`
				} else {
					k = "0"
				}
			}
			dup := false
			for _, o := range vals {
				if o == k {
					dup = true
				}
			}
			if !dup {
				vals = append(vals, k)
			}
		}
		sort.Strings(vals)
		g.enumIx[v] = used
		g.enumVals[v] = vals
		used++
	}
}

// tagEdge: an edge of a `switch x { case c: }` over a tracked enumeration - feasible? and the valuation after it.
func (g *Graph) tagEdge(e *GEdge, v Val) (bool, Val) {
	ev, ei, isE := g.enumOf(e.Tag)
	if !isE {
		return true, v
	}
	tv, has := g.Info.Types[e.Cond]
	if !has || tv.Value == nil {
		return true, v
	}
	c := tv.Value.ExactString()
	r := g.evalEnumEq(ev, ei, c, v)
	if (e.Taken && r == tvF) || (!e.Taken && r == tvT) {
		return false, v
	}
	return true, g.assumeEnumEq(ev, ei, c, e.Taken, v)
}

// enumOf: e is a tracked enumeration local.
func (g *Graph) enumOf(e ast.Expr) (*types.Var, int, bool) {
	id, ok := ast.Unparen(e).(*ast.Ident)
	if !ok {
		return nil, 0, false
	}
	var obj types.Object = g.Info.Uses[id]
	if obj == nil {
		obj = g.Info.Defs[id]
	}
	v, ok := obj.(*types.Var)
	if !ok {
		return nil, 0, false
	}
	i, ok := g.enumIx[v]
	return v, i, ok
}

func (g *Graph) enumState(v *types.Var, c string) int {
	for k, x := range g.enumVals[v] {
		if x == c {
			return k + 1
		}
	}
	return 0
}

// enumTest decomposes `x == c` / `x != c` (either order) over a tracked enumeration: the variable, its slot, the
// constant, and whether the expression states equality.
func (g *Graph) enumTest(e ast.Expr) (*types.Var, int, string, bool, bool) {
	b, ok := ast.Unparen(e).(*ast.BinaryExpr)
	if !ok || (b.Op != token.EQL && b.Op != token.NEQ) {
		return nil, 0, "", false, false
	}
	x, y := b.X, b.Y
	if _, _, isE := g.enumOf(x); !isE {
		x, y = y, x
	}
	v, i, isE := g.enumOf(x)
	if !isE {
		return nil, 0, "", false, false
	}
	tv, has := g.Info.Types[y]
	if !has || tv.Value == nil {
		return nil, 0, "", false, false
	}
	return v, i, tv.Value.ExactString(), b.Op == token.EQL, true
}

// evalEnumEq: three-valued truth of `x == c` under a valuation.
func (g *Graph) evalEnumEq(v *types.Var, i int, c string, val Val) int {
	want := g.enumState(v, c)
	if want == 0 {
		return tvF // the variable never holds that constant
	}
	s := val.get(i)
	if s == 0 {
		if len(g.enumVals[v]) == 1 {
			return tvT
		}
		return tvU
	}
	if s == want {
		return tvT
	}
	return tvF
}

func (g *Graph) assumeEnumEq(v *types.Var, i int, c string, holds bool, val Val) Val {
	want := g.enumState(v, c)
	if want == 0 {
		return val
	}
	if holds {
		return val.set(i, want)
	}
	if len(g.enumVals[v]) == 2 {
		return val.set(i, 3-want) // the other of the two values
	}
	return val
}

const maxTracked = 30

// nilVarOf: e is a tracked error-typed local.
func (g *Graph) nilVarOf(e ast.Expr) (int, bool) {
	id, ok := ast.Unparen(e).(*ast.Ident)
	if !ok {
		return 0, false
	}
	var obj types.Object = g.Info.Uses[id]
	if obj == nil {
		obj = g.Info.Defs[id]
	}
	v, ok := obj.(*types.Var)
	if !ok {
		return 0, false
	}
	i, ok := g.nilIx[v]
	return i, ok
}

func (g *Graph) isNilLit(e ast.Expr) bool {
	id, ok := ast.Unparen(e).(*ast.Ident)
	if !ok {
		return false
	}
	_, isNil := g.Info.Uses[id].(*types.Nil)
	return isNil
}

// nilTest decomposes `x != nil` / `x == nil` / `nil != x` over a tracked error local: index, and whether the
// expression states non-nil.
func (g *Graph) nilTest(e ast.Expr) (int, bool, bool) {
	b, ok := ast.Unparen(e).(*ast.BinaryExpr)
	if !ok || (b.Op != token.EQL && b.Op != token.NEQ) {
		return 0, false, false
	}
	x, y := b.X, b.Y
	if g.isNilLit(x) {
		x, y = y, x
	}
	if !g.isNilLit(y) {
		return 0, false, false
	}
	i, isV := g.nilVarOf(x)
	if !isV {
		return 0, false, false
	}
	return i, b.Op == token.NEQ, true
}

// evalNonNil: is the value of e (assigned to a tracked error local) non-nil?
func (g *Graph) evalNonNil(e ast.Expr, v Val) int {
	if e == nil || g.isNilLit(e) {
		return tvF
	}
	if i, ok := g.nilVarOf(e); ok {
		return v.get(i)
	}
	if call, ok := ast.Unparen(e).(*ast.CallExpr); ok {
		if fn, isF := CalleeOf(g.Info, call).(*types.Func); isF && (IsPkgFunc(fn, "fmt", "Errorf") || IsPkgFunc(fn, "errors", "New")) {
			return tvT
		}
		if id, isId := ast.Unparen(call.Fun).(*ast.Ident); isId {
			if b, isB := g.Info.Uses[id].(*types.Builtin); isB && (b.Name() == "make" || b.Name() == "new") {
				return tvT
			}
		}
	}
	if u, ok := ast.Unparen(e).(*ast.UnaryExpr); ok && u.Op == token.AND {
		return tvT
	}
	if _, ok := ast.Unparen(e).(*ast.FuncLit); ok {
		return tvT
	}
	return tvU
}

// ---- valuations ----

// Val is a valuation of the tracked flags: 2 bits per flag (0 unknown, 1 true, 2 false).
type Val uint64

func (v Val) get(i int) int        { return int(v>>(2*uint(i))) & 3 }
func (v Val) set(i int, x int) Val { return (v &^ (3 << (2 * uint(i)))) | Val(x)<<(2*uint(i)) }

const (
	tvU = 0
	tvT = 1
	tvF = 2
)

func (g *Graph) flagOf(e ast.Expr) (int, bool) {
	id, ok := ast.Unparen(e).(*ast.Ident)
	if !ok {
		return 0, false
	}
	var obj types.Object = g.Info.Uses[id]
	if obj == nil {
		obj = g.Info.Defs[id]
	}
	v, ok := obj.(*types.Var)
	if !ok {
		return 0, false
	}
	i, ok := g.flagIx[v]
	return i, ok
}

func (g *Graph) isIntFlag(e ast.Expr) bool {
	id, ok := ast.Unparen(e).(*ast.Ident)
	if !ok {
		return false
	}
	var obj types.Object = g.Info.Uses[id]
	if obj == nil {
		obj = g.Info.Defs[id]
	}
	v, ok := obj.(*types.Var)
	return ok && g.intFlag[v]
}

// intTest decomposes a comparison of a 0/1 integer flag with a constant: the flag's index and the flag value
// (true: 1, false: 0) for which the comparison holds.
func (g *Graph) intTest(e ast.Expr) (int, bool, bool) {
	b, ok := ast.Unparen(e).(*ast.BinaryExpr)
	if !ok {
		return 0, false, false
	}
	op, x, y := b.Op, b.X, b.Y
	if _, isC := ConstInt(g.Info, x); isC {
		x, y = y, x
		switch op {
		case token.LSS:
			op = token.GTR
		case token.LEQ:
			op = token.GEQ
		case token.GTR:
			op = token.LSS
		case token.GEQ:
			op = token.LEQ
		}
	}
	if !g.isIntFlag(x) {
		return 0, false, false
	}
	k, isC := ConstInt(g.Info, y)
	if !isC {
		return 0, false, false
	}
	i, _ := g.flagOf(x)
	switch {
	case op == token.EQL && k == 0, op == token.LSS && k == 1, op == token.LEQ && k == 0, op == token.NEQ && k == 1:
		return i, false, true
	case op == token.EQL && k == 1, op == token.GTR && k == 0, op == token.GEQ && k == 1, op == token.NEQ && k == 0:
		return i, true, true
	}
	return 0, false, false
}

func (g *Graph) constBool(e ast.Expr) (bool, bool) {
	tv, ok := g.Info.Types[e]
	if !ok || tv.Value == nil || tv.Value.Kind() != constant.Bool {
		return false, false
	}
	return constant.BoolVal(tv.Value), true
}

// eval evaluates a condition three-valued under a valuation.
func (g *Graph) eval(e ast.Expr, v Val) int {
	e = ast.Unparen(e)
	if b, ok := g.constBool(e); ok {
		if b {
			return tvT
		}
		return tvF
	}
	if i, ok := g.flagOf(e); ok {
		return v.get(i)
	}
	if i, nonNil, ok := g.nilTest(e); ok {
		switch r := v.get(i); {
		case r == tvU:
		case (r == tvT) == nonNil:
			return tvT
		default:
			return tvF
		}
	}
	if ev, ei, c, isEq, ok := g.enumTest(e); ok {
		r := g.evalEnumEq(ev, ei, c, v)
		if r == tvU || isEq {
			return r
		}
		if r == tvT {
			return tvF
		}
		return tvT
	}
	if i, set, ok := g.intTest(e); ok {
		switch r := v.get(i); {
		case r == tvU:
			return tvU
		case (r == tvT) == set:
			return tvT
		default:
			return tvF
		}
	}
	// a declared function compared with nil (`f != nil` after a function was substituted for a parameter)
	if b, ok := e.(*ast.BinaryExpr); ok && (b.Op == token.EQL || b.Op == token.NEQ) {
		x, y := b.X, b.Y
		if g.isNilLit(x) {
			x, y = y, x
		}
		if g.isNilLit(y) {
			var o types.Object
			switch t := ast.Unparen(x).(type) {
			case *ast.Ident:
				o = g.Info.Uses[t]
			case *ast.SelectorExpr:
				if sel := g.Info.Selections[t]; sel == nil || sel.Kind() == types.MethodExpr {
					o = g.Info.Uses[t.Sel]
				}
			}
			if _, isFn := o.(*types.Func); isFn {
				if b.Op == token.NEQ {
					return tvT
				}
				return tvF
			}
		}
	}
	switch t := e.(type) {
	case *ast.UnaryExpr:
		if t.Op == token.NOT {
			switch g.eval(t.X, v) {
			case tvT:
				return tvF
			case tvF:
				return tvT
			}
			return tvU
		}
	case *ast.BinaryExpr:
		switch t.Op {
		case token.LAND:
			a, b := g.eval(t.X, v), g.eval(t.Y, v)
			if a == tvF || b == tvF {
				return tvF
			}
			if a == tvT && b == tvT {
				return tvT
			}
			return tvU
		case token.LOR:
			a, b := g.eval(t.X, v), g.eval(t.Y, v)
			if a == tvT || b == tvT {
				return tvT
			}
			if a == tvF && b == tvF {
				return tvF
			}
			return tvU
		case token.EQL, token.NEQ:
			// flag == const
			a, b := g.eval(t.X, v), g.eval(t.Y, v)
			_, fa := g.flagOf(t.X)
			_, fb := g.flagOf(t.Y)
			_, ca := g.constBool(t.X)
			_, cb := g.constBool(t.Y)
			if (fa || ca) && (fb || cb) && a != tvU && b != tvU {
				eq := a == b
				if t.Op == token.NEQ {
					eq = !eq
				}
				if eq {
					return tvT
				}
				return tvF
			}
		}
	}
	if g.assumedFn != nil {
		if g.assumedFn(Fact{X: e, Pos: true, At: g.evalAt}) {
			return tvT
		}
		if g.assumedFn(Fact{X: e, Pos: false, At: g.evalAt}) {
			return tvF
		}
	}
	return tvU
}

// assume refines a valuation with the knowledge that e evaluated to want.
func (g *Graph) assume(e ast.Expr, want bool, v Val) Val {
	e = ast.Unparen(e)
	if i, ok := g.flagOf(e); ok {
		if want {
			return v.set(i, tvT)
		}
		return v.set(i, tvF)
	}
	if i, nonNil, ok := g.nilTest(e); ok {
		if want == nonNil {
			return v.set(i, tvT)
		}
		return v.set(i, tvF)
	}
	if ev, ei, c, isEq, ok := g.enumTest(e); ok {
		return g.assumeEnumEq(ev, ei, c, want == isEq, v)
	}
	if i, set, ok := g.intTest(e); ok {
		if want == set {
			return v.set(i, tvT)
		}
		return v.set(i, tvF)
	}
	switch t := e.(type) {
	case *ast.UnaryExpr:
		if t.Op == token.NOT {
			return g.assume(t.X, !want, v)
		}
	case *ast.BinaryExpr:
		switch t.Op {
		case token.LAND:
			if want {
				return g.assume(t.Y, true, g.assume(t.X, true, v))
			}
			// !(a&&b): if a is known true then b is false, and vice versa
			if g.eval(t.X, v) == tvT {
				return g.assume(t.Y, false, v)
			}
			if g.eval(t.Y, v) == tvT {
				return g.assume(t.X, false, v)
			}
		case token.LOR:
			if !want {
				return g.assume(t.Y, false, g.assume(t.X, false, v))
			}
			if g.eval(t.X, v) == tvF {
				return g.assume(t.Y, true, v)
			}
			if g.eval(t.Y, v) == tvF {
				return g.assume(t.X, true, v)
			}
		case token.EQL, token.NEQ:
			if b, ok := g.constBool(t.Y); ok {
				if _, isF := g.flagOf(t.X); isF {
					eq := want
					if t.Op == token.NEQ {
						eq = !want
					}
					return g.assume(t.X, b == eq, v)
				}
			}
		}
	}
	return v
}

// transfer applies the effect of executing node n on the valuation.
func (g *Graph) transfer(n *GNode, v Val) Val {
	if n.Node == nil || len(g.Flags)+len(g.nilIx)+len(g.enumIx) == 0 {
		return v
	}
	setTo := func(lhs ast.Expr, rhs ast.Expr) {
		if i, isNilVar := g.nilVarOf(lhs); isNilVar {
			v = v.set(i, g.evalNonNil(rhs, v))
			return
		}
		if ev, ei, isE := g.enumOf(lhs); isE {
			st := 0
			if rhs == nil {
				zero := "0"
				if b := ev.Type().Underlying().(*types.Basic); b.Info()&types.IsString != 0 {
					zero = `""`
				}
				st = g.enumState(ev, zero)
			} else if tv, has := g.Info.Types[rhs]; has && tv.Value != nil {
				st = g.enumState(ev, tv.Value.ExactString())
			}
			v = v.set(ei, st)
			return
		}
		i, ok := g.flagOf(lhs)
		if !ok {
			return
		}
		if rhs == nil {
			v = v.set(i, tvF) // zero value
			return
		}
		if k, isC := ConstInt(g.Info, rhs); isC && g.isIntFlag(lhs) {
			if k == 0 {
				v = v.set(i, tvF)
			} else {
				v = v.set(i, tvT)
			}
			return
		}
		v = v.set(i, g.eval(rhs, v))
	}
	switch t := n.Node.(type) {
	case *ast.ExprStmt:
		for _, av := range g.iifeAssigns[t] {
			if i, ok := g.flagIx[av]; ok {
				v = v.set(i, tvU)
			}
			if i, ok := g.nilIx[av]; ok {
				v = v.set(i, tvU)
			}
		}
	case *ast.AssignStmt:
		if len(t.Lhs) == len(t.Rhs) {
			for i := range t.Lhs {
				setTo(t.Lhs[i], t.Rhs[i])
			}
		} else {
			for _, l := range t.Lhs {
				if i, ok := g.flagOf(l); ok {
					v = v.set(i, tvU)
				}
				if i, ok := g.nilVarOf(l); ok {
					v = v.set(i, tvU)
				}
				if _, i, ok := g.enumOf(l); ok {
					v = v.set(i, 0)
				}
			}
		}
	case *ast.ValueSpec:
		for i, nm := range t.Names {
			if len(t.Values) == len(t.Names) {
				setTo(nm, t.Values[i])
			} else if len(t.Values) == 0 {
				setTo(nm, nil)
			} else if ix, ok := g.flagOf(nm); ok {
				v = v.set(ix, tvU)
			} else if ix, ok := g.nilVarOf(nm); ok {
				v = v.set(ix, tvU)
			}
		}
	}
	return v
}

// EdgeFacts returns the atomic facts known on an edge.
func (g *Graph) EdgeFacts(e *GEdge) []Fact {
	if e.Cond == nil {
		return nil
	}
	if e.Tag != nil {
		return []Fact{{X: e.Tag, Y: e.Cond, Pos: e.Taken}}
	}
	var out []Fact
	var walk func(x ast.Expr, want bool)
	walk = func(x ast.Expr, want bool) {
		x = ast.Unparen(x)
		switch t := x.(type) {
		case *ast.UnaryExpr:
			if t.Op == token.NOT {
				walk(t.X, !want)
				return
			}
		case *ast.BinaryExpr:
			if t.Op == token.LAND && want {
				walk(t.X, true)
				walk(t.Y, true)
				return
			}
			if t.Op == token.LOR && !want {
				walk(t.X, false)
				walk(t.Y, false)
				return
			}
			if t.Op == token.LAND || t.Op == token.LOR {
				return // nothing definite about the parts
			}
		case *ast.Ident:
			// a boolean local that names a condition (`found := x == y` ... `if found`): the facts of the condition
			if def := g.condAlias(t); def != nil {
				walk(def, want)
				return
			}
		}
		out = append(out, Fact{X: x, Pos: want})
	}
	walk(e.Cond, e.Taken)
	if defs := g.adjacentDefs(e.From); len(defs) > 0 {
		// the substituted form is an additional fact: rules that identify the variable keep their fact. A substituted
		// boolean expression is decomposed like a condition written in place (`ok := a && b; if ok` gives a and b).
		for _, f := range out[:len(out):len(out)] {
			if x := substIdents(g.Info, f.X, defs); x != f.X {
				before := len(out)
				walk(x, f.Pos)
				if len(out) == before+1 && out[before].X == x {
					out[before].Y = f.Y
				}
			}
		}
	}
	return out
}

// EdgeDisjuncts returns atoms A1..An such that taking edge e means A1 || ... || An (the dual of EdgeFacts, whose
// facts all hold): the leaves of an `||` tree on its true edge, of an `&&` tree (negated) on its false edge; a
// single atom otherwise; nil for unconditional or opaque edges. Locals defined just before the test are substituted
// like in EdgeFacts (the substituted atom replaces the original one here).
func (g *Graph) EdgeDisjuncts(e *GEdge) []Fact {
	if e.Cond == nil {
		return nil
	}
	if e.Tag != nil {
		return []Fact{{X: e.Tag, Y: e.Cond, Pos: e.Taken}}
	}
	var out []Fact
	var walk func(x ast.Expr, want bool)
	walk = func(x ast.Expr, want bool) {
		x = ast.Unparen(x)
		switch t := x.(type) {
		case *ast.UnaryExpr:
			if t.Op == token.NOT {
				walk(t.X, !want)
				return
			}
		case *ast.BinaryExpr:
			if (t.Op == token.LOR && want) || (t.Op == token.LAND && !want) {
				walk(t.X, want)
				walk(t.Y, want)
				return
			}
		}
		out = append(out, Fact{X: x, Pos: want})
	}
	walk(e.Cond, e.Taken)
	if defs := g.adjacentDefs(e.From); len(defs) > 0 {
		for i := range out {
			out[i].X = substIdents(g.Info, out[i].X, defs)
		}
	}
	return out
}

// EdgeClauses returns the condition under which edge e is taken in conjunctive normal form: every clause holds on
// the edge, a clause is a disjunction of atoms. EdgeFacts are its unit clauses, EdgeDisjuncts its only clause when
// there is exactly one. Boolean locals that name a stable condition are expanded, locals defined just before the
// test are substituted. nil for unconditional / opaque edges or when the form would exceed 32 clauses.
func (g *Graph) EdgeClauses(e *GEdge) [][]Fact {
	if e.Cond == nil {
		return nil
	}
	if e.Tag != nil {
		return [][]Fact{{{X: e.Tag, Y: e.Cond, Pos: e.Taken}}}
	}
	defs := g.adjacentDefs(e.From)
	tooBig := false
	var cnf func(x ast.Expr, want bool) [][]Fact
	cnf = func(x ast.Expr, want bool) [][]Fact {
		x = ast.Unparen(x)
		switch t := x.(type) {
		case *ast.UnaryExpr:
			if t.Op == token.NOT {
				return cnf(t.X, !want)
			}
		case *ast.BinaryExpr:
			if (t.Op == token.LAND && want) || (t.Op == token.LOR && !want) {
				return append(cnf(t.X, want), cnf(t.Y, want)...)
			}
			if (t.Op == token.LOR && want) || (t.Op == token.LAND && !want) {
				a, b := cnf(t.X, want), cnf(t.Y, want)
				if len(a)*len(b) > 32 {
					tooBig = true
					return nil
				}
				var out [][]Fact
				for _, ca := range a {
					for _, cb := range b {
						cl := append(append([]Fact{}, ca...), cb...)
						out = append(out, cl)
					}
				}
				return out
			}
		case *ast.Ident:
			if def := g.condAlias(t); def != nil {
				return cnf(def, want)
			}
			if len(defs) > 0 {
				if o := g.Info.Uses[t]; o != nil {
					if r, ok := defs[o]; ok {
						if b, isB := o.Type().Underlying().(*types.Basic); isB && b.Kind() == types.Bool {
							return cnf(r, want)
						}
					}
				}
			}
		}
		if len(defs) > 0 {
			x = substIdents(g.Info, x, defs)
		}
		return [][]Fact{{{X: x, Pos: want}}}
	}
	out := cnf(e.Cond, e.Taken)
	if tooBig {
		return nil
	}
	return out
}

// adjacentDefs returns the locals defined by the statements that immediately precede the test node n
// (`x := E` / `if x := E; cond(x)`), with their defining expressions: between such a definition and the test nothing
// else runs, so a fact about x is a fact about E. Only variables assigned exactly once are taken; the walk stops at
// the first node that is not such a definition (at most three definitions).
func (g *Graph) adjacentDefs(n *GNode) map[types.Object]ast.Expr {
	if g.aliases == nil {
		g.aliases = map[*types.Var]ast.Expr{}
		g.computeAliases()
	}
	var out map[types.Object]ast.Expr
	cur := n
	for steps, hops := 0, 0; steps < 3 && hops < 12; hops++ {
		if len(cur.Pred) != 1 {
			break
		}
		prev := cur.Pred[0].From
		if prev.Node == nil {
			cur = prev
			continue
		}
		if ex, isExpr := prev.Node.(ast.Expr); isExpr && !hasEffectfulCall(g.Info, ex) {
			// an earlier operand of the same short-circuit condition (`x == a || x == b`): nothing changes there
			cur = prev
			continue
		}
		as, ok := prev.Node.(*ast.AssignStmt)
		if !ok || (as.Tok != token.DEFINE && as.Tok != token.ASSIGN) || len(as.Lhs) != 1 || len(as.Rhs) != 1 {
			break
		}
		id, ok := as.Lhs[0].(*ast.Ident)
		if !ok {
			break
		}
		// the assignment dominates the test with nothing but other such assignments in between, so the variable
		// still holds this value at the test, whatever is assigned to it elsewhere
		v, _ := g.Info.ObjectOf(id).(*types.Var)
		if v == nil || v.IsField() {
			break
		}
		if out != nil {
			// an earlier assignment is only usable when no later one of the chain wrote a variable it reads
			clash := false
			for o := range out {
				if UsesObj(g.Info, as.Rhs[0], o, false) {
					clash = true
				}
			}
			if _, dup := out[v]; dup || clash {
				break
			}
		}
		// a definition further back is only usable when the later ones cannot have changed what it read:
		// the later definitions must be free of calls other than len/cap
		if out == nil {
			out = map[types.Object]ast.Expr{}
		}
		out[v] = as.Rhs[0]
		if hasEffectfulCall(g.Info, as.Rhs[0]) {
			break
		}
		cur = prev
		steps++
	}
	return out
}

func hasEffectfulCall(info *types.Info, e ast.Expr) bool {
	found := false
	ast.Inspect(e, func(n ast.Node) bool {
		switch t := n.(type) {
		case *ast.FuncLit:
			found = true
		case *ast.UnaryExpr:
			if t.Op == token.ARROW {
				found = true
			}
		case *ast.CallExpr:
			if id, ok := ast.Unparen(t.Fun).(*ast.Ident); ok {
				if b, isB := info.Uses[id].(*types.Builtin); isB && (b.Name() == "len" || b.Name() == "cap") {
					return true
				}
			}
			if tv, ok := info.Types[t.Fun]; ok && tv.IsType() {
				return true // conversion
			}
			found = true
		}
		return !found
	})
	return found
}

// substIdents returns e with every identifier that names a key of defs replaced by its defining expression. Only the
// spine of comparisons and boolean operators is rebuilt; the leaves are original nodes and keep their type info.
func substIdents(info *types.Info, e ast.Expr, defs map[types.Object]ast.Expr) ast.Expr {
	switch t := e.(type) {
	case *ast.Ident:
		if o := info.Uses[t]; o != nil {
			if r, ok := defs[o]; ok {
				return r
			}
		}
	case *ast.ParenExpr:
		if x := substIdents(info, t.X, defs); x != t.X {
			return x
		}
	case *ast.UnaryExpr:
		if x := substIdents(info, t.X, defs); x != t.X {
			return &ast.UnaryExpr{OpPos: t.OpPos, Op: t.Op, X: x}
		}
	case *ast.BinaryExpr:
		x, y := substIdents(info, t.X, defs), substIdents(info, t.Y, defs)
		if x != t.X || y != t.Y {
			return &ast.BinaryExpr{X: x, OpPos: t.OpPos, Op: t.Op, Y: y}
		}
	case *ast.CallExpr:
		// len(x), cap(x)
		if id, ok := t.Fun.(*ast.Ident); ok && len(t.Args) == 1 {
			if _, isB := info.Uses[id].(*types.Builtin); isB && (id.Name == "len" || id.Name == "cap") {
				if x := substIdents(info, t.Args[0], defs); x != t.Args[0] {
					return &ast.CallExpr{Fun: t.Fun, Lparen: t.Lparen, Args: []ast.Expr{x}, Rparen: t.Rparen}
				}
			}
		}
	}
	return e
}

// condAlias returns E when id is a boolean local defined exactly once by `id := E` in this body, E is free of calls
// and every variable in E is a local or parameter that is assigned at most once (its own definition) and never has
// its address taken: E then has the same value at every later test of id as at the definition.
func (g *Graph) condAlias(id *ast.Ident) ast.Expr {
	v, ok := g.Info.Uses[id].(*types.Var)
	if !ok || v.IsField() {
		return nil
	}
	if b, ok := v.Type().Underlying().(*types.Basic); !ok || b.Kind() != types.Bool {
		return nil
	}
	if g.aliases == nil {
		g.aliases = map[*types.Var]ast.Expr{}
		g.computeAliases()
	}
	return g.aliases[v]
}

func (g *Graph) computeAliases() {
	info := g.Info
	assigns := map[*types.Var]int{} // number of assignments anywhere under the body (literals included)
	addr := map[*types.Var]bool{}
	defs := map[*types.Var]ast.Expr{}
	varOf := func(e ast.Expr) *types.Var {
		id, ok := ast.Unparen(e).(*ast.Ident)
		if !ok {
			return nil
		}
		var o types.Object = info.Defs[id]
		if o == nil {
			o = info.Uses[id]
		}
		v, _ := o.(*types.Var)
		return v
	}
	ast.Inspect(g.Body, func(n ast.Node) bool {
		switch t := n.(type) {
		case *ast.AssignStmt:
			for i, l := range t.Lhs {
				if v := varOf(l); v != nil {
					assigns[v]++
					if t.Tok == token.DEFINE && len(t.Lhs) == len(t.Rhs) {
						defs[v] = t.Rhs[i]
					}
				}
			}
		case *ast.ValueSpec:
			for _, nm := range t.Names {
				if v := varOf(nm); v != nil {
					assigns[v]++
				}
			}
		case *ast.IncDecStmt:
			if v := varOf(t.X); v != nil {
				assigns[v] += 2
			}
		case *ast.RangeStmt:
			if t.Key != nil {
				if v := varOf(t.Key); v != nil {
					assigns[v]++
				}
			}
			if t.Value != nil {
				if v := varOf(t.Value); v != nil {
					assigns[v]++
				}
			}
		case *ast.UnaryExpr:
			if t.Op == token.AND {
				if v := varOf(t.X); v != nil {
					addr[v] = true
				}
			}
		}
		return true
	})
	g.assignCount = assigns
	for v := range addr {
		assigns[v] += 2
	}
	writtenFields := map[*types.Var]bool{}
	ast.Inspect(g.Body, func(n ast.Node) bool {
		mark := func(l ast.Expr) {
			for {
				switch t := ast.Unparen(l).(type) {
				case *ast.SelectorExpr:
					if fv, ok := info.Uses[t.Sel].(*types.Var); ok && fv.IsField() {
						writtenFields[fv] = true
					}
					l = t.X
					continue
				case *ast.IndexExpr:
					l = t.X
					continue
				}
				return
			}
		}
		switch t := n.(type) {
		case *ast.AssignStmt:
			for _, l := range t.Lhs {
				mark(l)
			}
		case *ast.IncDecStmt:
			mark(t.X)
		case *ast.UnaryExpr:
			if t.Op == token.AND {
				mark(t.X)
			}
		}
		return true
	})
	for v, e := range defs {
		if assigns[v] != 1 || addr[v] {
			continue
		}
		if b, ok := v.Type().Underlying().(*types.Basic); !ok || b.Kind() != types.Bool {
			continue
		}
		if tv, ok := info.Types[e]; ok && tv.Value != nil {
			continue // constant: an ordinary flag
		}
		stable := true
		var visit func(n ast.Node) bool
		visit = func(n ast.Node) bool {
			switch t := n.(type) {
			case *ast.SelectorExpr:
				// a field of a stable variable is stable when no statement of the body assigns that field (of any
				// variable); package-qualified constants/variables are judged by the identifier case below
				if fv, isF := info.Uses[t.Sel].(*types.Var); isF && fv.IsField() {
					if writtenFields[fv] {
						stable = false
					}
					if stable {
						ast.Inspect(t.X, visit) // the base only: the field identifier itself is not a variable use
					}
					return false
				}
				if _, isPkg := info.Uses[identOfExpr(t.X)].(*types.PkgName); isPkg {
					if _, isConst := info.Uses[t.Sel].(*types.Const); isConst {
						return false
					}
				}
				stable = false
			case *ast.CallExpr, *ast.FuncLit, *ast.IndexExpr, *ast.StarExpr, *ast.TypeAssertExpr, *ast.SliceExpr:
				stable = false
			case *ast.UnaryExpr:
				if t.Op == token.ARROW || t.Op == token.AND {
					stable = false
				}
			case *ast.Ident:
				switch o := info.Uses[t].(type) {
				case *types.Var:
					if o.IsField() || addr[o] || assigns[o] > 1 || (o.Pkg() != nil && o.Parent() == o.Pkg().Scope()) {
						stable = false
					}
					// captured variables of an enclosing function may change elsewhere: only variables declared
					// inside this body or parameters of it are stable
					if o.Pos() < g.Body.Pos() || o.Pos() > g.Body.End() {
						if !g.isParam(o) {
							stable = false
						}
					}
				case *types.Const, *types.Nil, *types.TypeName, *types.Builtin:
				case nil:
				default:
					stable = false
				}
			}
			return stable
		}
		ast.Inspect(e, visit)
		if stable {
			g.aliases[v] = e
		}
	}
}

func (g *Graph) isParam(v *types.Var) bool {
	var ft *ast.FuncType
	if g.Lit != nil {
		ft = g.Lit.Lit.Type
	} else if g.Fn != nil {
		ft = g.Fn.Decl.Type
	}
	if ft == nil || ft.Params == nil {
		return false
	}
	for _, fl := range ft.Params.List {
		for _, nm := range fl.Names {
			if g.Info.Defs[nm] == v {
				return true
			}
		}
	}
	return false
}

// ---- queries ----

// Query describes a reachability question.
type Query struct {
	From      []*GNode          // start nodes (execution starts *after* these nodes unless FromEntry)
	FromEntry bool              // start at function entry (before the first node)
	FromAt    []*GNode          // start nodes that are executed first (their effect on tracked variables counts)
	AvoidNode func(*GNode) bool // nodes that may not be passed (a start node itself is not tested)
	AvoidEdge func(*GEdge) bool // edges that may not be taken
	NoFlags   bool              // ignore flag valuations (path-insensitive)
	NoSeed    bool              // start nodes begin with no knowledge of the flags (default: what the entry of the function can establish)
	NonNil    []types.Object    // tracked error locals known to be non-nil at the start nodes
	Nil       []types.Object    // tracked nilable locals known to be nil at the start nodes
	Assume    func(Fact) bool   // atoms taken to hold (Fact{x,true}: x holds; Fact{x,false}: x does not) while conditions and flag assignments are evaluated
}

type state struct {
	n *GNode
	v Val
}

// Reach returns the set of nodes reachable under q (a node is "reached" when control arrives at it,
// before AvoidNode is applied: avoided nodes are reported as reached but not traversed).
func (g *Graph) Reach(q Query) map[*GNode]bool {
	if q.Assume != nil {
		prevAssumed, prevAt := g.assumedFn, g.evalAt
		g.assumedFn = q.Assume
		defer func() { g.assumedFn, g.evalAt = prevAssumed, prevAt }() // queries nest (an assumption may ask one itself)
	}
	reached := map[*GNode]bool{}
	seen := map[state]bool{}
	var work []state
	push := func(s state) {
		if q.NoFlags {
			s.v = 0
		}
		if !seen[s] {
			seen[s] = true
			work = append(work, s)
		}
	}
	// expand: leave node n with valuation v (already includes n's transfer)
	leave := func(n *GNode, v Val) {
		g.evalAt = n
		for _, e := range n.Succ {
			if q.AvoidEdge != nil && q.AvoidEdge(e) {
				continue
			}
			nv := v
			if e.Cond != nil && e.Tag == nil && !q.NoFlags {
				r := g.eval(e.Cond, v)
				if (e.Taken && r == tvF) || (!e.Taken && r == tvT) {
					continue // infeasible
				}
				nv = g.assume(e.Cond, e.Taken, v)
			}
			if e.Cond != nil && e.Tag != nil && !q.NoFlags {
				if ok, w := g.tagEdge(e, v); !ok {
					continue
				} else {
					nv = w
				}
			}
			push(state{e.To, nv})
		}
	}
	v0 := Val(0)
	for _, o := range q.NonNil {
		if v, isV := o.(*types.Var); isV {
			if i, ok := g.nilIx[v]; ok {
				v0 = v0.set(i, tvT)
			}
		}
	}
	for _, o := range q.Nil {
		if v, isV := o.(*types.Var); isV {
			if i, ok := g.nilIx[v]; ok {
				v0 = v0.set(i, tvF)
			}
		}
	}
	if q.FromEntry {
		push(state{g.Entry, v0})
	}
	for _, n := range q.From {
		for _, sv := range g.seedVals(n, v0, q) {
			leave(n, sv)
		}
	}
	for _, n := range q.FromAt {
		v := v0
		if !q.NoFlags {
			v = g.transfer(n, v0)
		}
		seeds := g.seedVals(n, v0, q)
		if len(seeds) == 1 && seeds[0] == v0 {
			seeds = []Val{v} // nothing known from the entry: the node's own effect on the empty valuation
		}
		for _, sv := range seeds {
			leave(n, sv)
		}
	}
	for len(work) > 0 {
		s := work[len(work)-1]
		work = work[:len(work)-1]
		reached[s.n] = true
		if q.AvoidNode != nil && q.AvoidNode(s.n) {
			continue
		}
		v := s.v
		g.evalAt = s.n
		if !q.NoFlags {
			v = g.transfer(s.n, v)
		}
		leave(s.n, v)
	}
	return reached
}

// seedVals: the valuations with which execution can leave start node n. A query that starts in the middle of a function
// knows nothing about the flags assigned before n unless it is told: the valuations with which n is reached from the
// entry of the function (all paths, no avoidance) are an over-approximation of what can hold there, and n's own
// assignments are applied on top. A node that the entry does not reach (or NoFlags) starts from v0 as before.
func (g *Graph) seedVals(n *GNode, v0 Val, q Query) []Val {
	if q.NoFlags || q.NoSeed || g.seeding || len(g.Flags)+len(g.nilIx)+len(g.enumIx) == 0 {
		return []Val{v0}
	}
	if g.entryVals == nil || q.Assume != nil {
		g.seeding = true
		ev := g.ReachVals(Query{FromEntry: true, Assume: q.Assume})
		g.seeding = false
		if q.Assume != nil {
			g.assumedFn = q.Assume
			return g.mergeSeeds(ev[n], n, v0)
		}
		g.entryVals = ev
	}
	return g.mergeSeeds(g.entryVals[n], n, v0)
}

func (g *Graph) mergeSeeds(vals map[Val]bool, n *GNode, v0 Val) []Val {
	if len(vals) == 0 || len(vals) > 64 {
		return []Val{v0}
	}
	set := map[Val]bool{}
	var out []Val
	for sv := range vals {
		g.evalAt = n
		w := g.transfer(n, sv)
		// facts given by the query (NonNil) hold after the start node: they override what the analysis derives
		for i := 0; i < maxTracked; i++ {
			if t := v0.get(i); t != tvU {
				w = w.set(i, t)
			}
		}
		if !set[w] {
			set[w] = true
			out = append(out, w)
		}
	}
	sort.Slice(out, func(i, j int) bool { return out[i] < out[j] })
	return out
}

// ReachVals is Reach that also reports the flag valuations with which each node is reached (before the node runs).
func (g *Graph) ReachVals(q Query) map[*GNode]map[Val]bool {
	if q.Assume != nil {
		prevAssumed, prevAt := g.assumedFn, g.evalAt
		g.assumedFn = q.Assume
		defer func() { g.assumedFn, g.evalAt = prevAssumed, prevAt }() // queries nest (an assumption may ask one itself)
	}
	out := map[*GNode]map[Val]bool{}
	seen := map[state]bool{}
	var work []state
	push := func(s state) {
		if !seen[s] {
			seen[s] = true
			work = append(work, s)
		}
	}
	leave := func(n *GNode, v Val) {
		g.evalAt = n
		for _, e := range n.Succ {
			if q.AvoidEdge != nil && q.AvoidEdge(e) {
				continue
			}
			nv := v
			if e.Cond != nil && e.Tag == nil {
				r := g.eval(e.Cond, v)
				if (e.Taken && r == tvF) || (!e.Taken && r == tvT) {
					continue
				}
				nv = g.assume(e.Cond, e.Taken, v)
			}
			if e.Cond != nil && e.Tag != nil {
				if ok, w := g.tagEdge(e, v); !ok {
					continue
				} else {
					nv = w
				}
			}
			push(state{e.To, nv})
		}
	}
	v0 := Val(0)
	for _, o := range q.NonNil {
		if v, isV := o.(*types.Var); isV {
			if i, ok := g.nilIx[v]; ok {
				v0 = v0.set(i, tvT)
			}
		}
	}
	for _, o := range q.Nil {
		if v, isV := o.(*types.Var); isV {
			if i, ok := g.nilIx[v]; ok {
				v0 = v0.set(i, tvF)
			}
		}
	}
	if q.FromEntry {
		push(state{g.Entry, v0})
	}
	for _, n := range q.From {
		for _, sv := range g.seedVals(n, v0, q) {
			leave(n, sv)
		}
	}
	for _, n := range q.FromAt {
		v := v0
		if !q.NoFlags {
			v = g.transfer(n, v0)
		}
		seeds := g.seedVals(n, v0, q)
		if len(seeds) == 1 && seeds[0] == v0 {
			seeds = []Val{v} // nothing known from the entry: the node's own effect on the empty valuation
		}
		for _, sv := range seeds {
			leave(n, sv)
		}
	}
	for len(work) > 0 {
		s := work[len(work)-1]
		work = work[:len(work)-1]
		if out[s.n] == nil {
			out[s.n] = map[Val]bool{}
		}
		out[s.n][s.v] = true
		if q.AvoidNode != nil && q.AvoidNode(s.n) {
			continue
		}
		g.evalAt = s.n
		leave(s.n, g.transfer(s.n, s.v))
	}
	return out
}

// FlagIs reports the value of a tracked flag in a valuation: +1 true, -1 false, 0 unknown / not tracked.
func (g *Graph) FlagIs(v Val, flag *types.Var) int {
	i, ok := g.flagIx[flag]
	if !ok {
		return 0
	}
	switch v.get(i) {
	case tvT:
		return 1
	case tvF:
		return -1
	}
	return 0
}

// ExitReachable tells whether some exit of the function is reachable under q; it returns one such exit.
func (g *Graph) ExitReachable(q Query) *GNode {
	r := g.Reach(q)
	for _, n := range g.Nodes {
		if n.Exit && r[n] {
			if q.AvoidNode != nil && q.AvoidNode(n) {
				continue
			}
			return n
		}
	}
	return nil
}

// NodesWhere returns the graph nodes whose ast node satisfies pred.
func (g *Graph) NodesWhere(pred func(ast.Node) bool) []*GNode {
	var out []*GNode
	for _, n := range g.Nodes {
		if n.Node != nil && pred(n.Node) {
			out = append(out, n)
		}
	}
	return out
}

// NodeOf returns the graph node that contains the given ast node (position containment).
func (g *Graph) NodeOf(x ast.Node) *GNode {
	var best *GNode
	for _, n := range g.Nodes {
		if n.Node == nil {
			continue
		}
		if n.Node.Pos() <= x.Pos() && x.End() <= n.Node.End() {
			// choose the innermost (smallest) containing node; RangeStmt / whole statements may contain others
			if best == nil || (n.Node.End()-n.Node.Pos()) < (best.Node.End()-best.Node.Pos()) {
				best = n
			}
		}
	}
	return best
}

// CallsIn returns the call expressions evaluated by a node, not descending into function literals
// (except that the call itself of an immediately invoked literal is reported).
func CallsIn(n ast.Node) []*ast.CallExpr {
	var out []*ast.CallExpr
	if n == nil {
		return nil
	}
	// A RangeStmt / control statement never appears whole in go/cfg blocks except RangeStmt key/value exprs.
	inspectNoLit(n, func(m ast.Node) bool {
		if c, ok := m.(*ast.CallExpr); ok {
			out = append(out, c)
		}
		return true
	})
	return out
}

// NodeCalls reports whether the node evaluates a call whose callee satisfies pred. Deferred and go calls are
// reported with the corresponding flags.
type CallMatch struct {
	Call  *ast.CallExpr
	Defer bool
	Go    bool
}

func (g *Graph) CallsAt(n *GNode, pred func(callee types.Object, call *ast.CallExpr) bool) []CallMatch {
	if n.Node == nil {
		return nil
	}
	var out []CallMatch
	var deferCall, goCall *ast.CallExpr
	switch t := n.Node.(type) {
	case *ast.DeferStmt:
		deferCall = t.Call
	case *ast.GoStmt:
		goCall = t.Call
	}
	for _, c := range CallsIn(n.Node) {
		if pred(CalleeOf(g.Info, c), c) {
			out = append(out, CallMatch{Call: c, Defer: c == deferCall, Go: c == goCall})
		}
	}
	return out
}

// NodesCalling returns nodes that evaluate (not defer / go) a call to one of the objects.
func (g *Graph) NodesCalling(objs ...types.Object) []*GNode {
	set := map[types.Object]bool{}
	for _, o := range objs {
		if o != nil {
			set[o] = true
		}
	}
	var out []*GNode
	for _, n := range g.Nodes {
		ms := g.CallsAt(n, func(c types.Object, _ *ast.CallExpr) bool { return c != nil && set[c] })
		for _, m := range ms {
			if !m.Defer && !m.Go {
				out = append(out, n)
				break
			}
		}
	}
	return out
}

// MustPassToExit: every path from the start (see Query) to any exit passes a node for which via is true.
// It returns the offending exit (nil when the property holds).
func (g *Graph) MustPassToExit(q Query, via func(*GNode) bool) *GNode {
	prev := q.AvoidNode
	q.AvoidNode = func(n *GNode) bool { return via(n) || (prev != nil && prev(n)) }
	r := g.Reach(q)
	for _, n := range g.Nodes {
		if n.Exit && r[n] && !via(n) && (prev == nil || !prev(n)) {
			return n
		}
	}
	return nil
}

// OnlyVia: target is reachable from entry only through a node satisfying via (or an edge satisfying viaEdge).
func (g *Graph) OnlyVia(target *GNode, via func(*GNode) bool, viaEdge func(*GEdge) bool) bool {
	q := Query{FromEntry: true}
	if via != nil {
		q.AvoidNode = func(n *GNode) bool { return n != target && via(n) }
	}
	q.AvoidEdge = viaEdge
	r := g.Reach(q)
	return !r[target]
}

// FactEdge builds an edge predicate: the edge carries a fact accepted by m.
func (g *Graph) FactEdge(m func(Fact) bool) func(*GEdge) bool {
	return func(e *GEdge) bool {
		for _, f := range g.EdgeFacts(e) {
			if m(f) {
				return true
			}
		}
		return false
	}
}

// Describe renders a node for reports.
func (g *Graph) Describe(n *GNode) string {
	if n == nil {
		return "<nil>"
	}
	if n.Node == nil {
		return fmt.Sprintf("block %d (%s)", n.Block.Index, n.Block.Kind)
	}
	return fmt.Sprintf("%s `%s`", g.P.Rel(n.Node.Pos()), Short(g.P.Fset, n.Node))
}

// IsReturn tells whether the node is a return statement.
func IsReturn(n *GNode) (*ast.ReturnStmt, bool) {
	if n.Node == nil {
		return nil, false
	}
	r, ok := n.Node.(*ast.ReturnStmt)
	return r, ok
}

// Infeasible builds an edge predicate from an assumption: assumed(f) tells that fact f is taken to hold. An edge is
// infeasible when it is the true edge of a conjunction one of whose conjuncts contradicts the assumption, or the false
// edge of a conjunction (or single atom) *all* of whose conjuncts are assumed. Used for "whenever A and B hold, X must
// happen" rules: an extra conjunct in the guarding condition keeps the false edge feasible.
func (g *Graph) Infeasible(assumed func(Fact) bool) func(*GEdge) bool {
	return func(e *GEdge) bool {
		if e.Cond == nil {
			return false
		}
		if e.Tag != nil {
			if e.Taken {
				return assumed(Fact{X: e.Tag, Y: e.Cond, Pos: false, At: e.From})
			}
			return assumed(Fact{X: e.Tag, Y: e.Cond, Pos: true, At: e.From})
		}
		// three-valued evaluation of the condition under the assumption: an atom is true when it is assumed, false
		// when its negation is assumed, unknown otherwise; boolean locals that name a condition are expanded
		defs := g.adjacentDefs(e.From)
		var eval func(x ast.Expr, depth int) int
		eval = func(x ast.Expr, depth int) int {
			x = ast.Unparen(x)
			if b, ok := g.constBool(x); ok {
				if b {
					return tvT
				}
				return tvF
			}
			switch t := x.(type) {
			case *ast.UnaryExpr:
				if t.Op == token.NOT {
					switch eval(t.X, depth) {
					case tvT:
						return tvF
					case tvF:
						return tvT
					}
					return tvU
				}
			case *ast.BinaryExpr:
				if t.Op == token.LAND || t.Op == token.LOR {
					a, b := eval(t.X, depth), eval(t.Y, depth)
					if t.Op == token.LAND {
						if a == tvF || b == tvF {
							return tvF
						}
						if a == tvT && b == tvT {
							return tvT
						}
						return tvU
					}
					if a == tvT || b == tvT {
						return tvT
					}
					if a == tvF && b == tvF {
						return tvF
					}
					return tvU
				}
			case *ast.Ident:
				if depth < 4 {
					if def := g.condAlias(t); def != nil {
						if v := eval(def, depth+1); v != tvU {
							return v
						}
					} else if o := g.Info.Uses[t]; o != nil {
						if r, ok := defs[o]; ok {
							if bt, isB := o.Type().Underlying().(*types.Basic); isB && bt.Kind() == types.Bool {
								if v := eval(r, depth+1); v != tvU {
									return v
								}
							}
						}
					}
				}
			}
			if assumed(Fact{X: x, Pos: true, At: e.From}) {
				return tvT
			}
			if assumed(Fact{X: x, Pos: false, At: e.From}) {
				return tvF
			}
			if len(defs) > 0 {
				if sx := substIdents(g.Info, x, defs); sx != x {
					if assumed(Fact{X: sx, Pos: true, At: e.From}) {
						return tvT
					}
					if assumed(Fact{X: sx, Pos: false, At: e.From}) {
						return tvF
					}
				}
			}
			return tvU
		}
		switch eval(e.Cond, 0) {
		case tvT:
			return !e.Taken
		case tvF:
			return e.Taken
		}
		return false
	}
}

// EvalBoolResult interprets a small pure predicate abstractly: starting at the entry of g it follows the edges whose
// conditions evaluate, under env (boolean locals with given values), to the taken outcome, binds boolean locals that
// are assigned from evaluable expressions, and returns the value of the first `return <expr>` reached. ok=false when a
// condition or the returned expression cannot be evaluated from env and constants (calls, other variables), or when
// the walk exceeds 300 steps. Nothing is executed: it is a three-valued evaluation over the syntax.
func (g *Graph) EvalBoolResult(env map[types.Object]bool) (result bool, ok bool) {
	vals := map[types.Object]bool{}
	for k, v := range env {
		vals[k] = v
	}
	var eval func(e ast.Expr) (bool, bool)
	eval = func(e ast.Expr) (bool, bool) {
		e = ast.Unparen(e)
		if tv, has := g.Info.Types[e]; has && tv.Value != nil && tv.Value.Kind() == constant.Bool {
			return constant.BoolVal(tv.Value), true
		}
		switch t := e.(type) {
		case *ast.Ident:
			if o := g.Info.ObjectOf(t); o != nil {
				if v, has := vals[o]; has {
					return v, true
				}
			}
		case *ast.UnaryExpr:
			if t.Op == token.NOT {
				if v, ok := eval(t.X); ok {
					return !v, true
				}
			}
		case *ast.BinaryExpr:
			a, oka := eval(t.X)
			switch t.Op {
			case token.LAND:
				if oka && !a {
					return false, true
				}
				b, okb := eval(t.Y)
				if okb && !b {
					return false, true
				}
				return a && b, oka && okb
			case token.LOR:
				if oka && a {
					return true, true
				}
				b, okb := eval(t.Y)
				if okb && b {
					return true, true
				}
				return a || b, oka && okb
			case token.EQL, token.NEQ:
				b, okb := eval(t.Y)
				if oka && okb {
					return (a == b) == (t.Op == token.EQL), true
				}
			}
		}
		return false, false
	}
	n := g.Entry
	for steps := 0; n != nil && steps < 300; steps++ {
		switch t := n.Node.(type) {
		case *ast.ReturnStmt:
			if len(t.Results) != 1 {
				return false, false
			}
			return eval(t.Results[0])
		case *ast.AssignStmt:
			if len(t.Lhs) == len(t.Rhs) {
				for i, l := range t.Lhs {
					if id, isId := l.(*ast.Ident); isId {
						if o := g.Info.ObjectOf(id); o != nil {
							if _, given := env[o]; given {
								continue
							}
							if v, ok := eval(t.Rhs[i]); ok {
								vals[o] = v
							} else {
								delete(vals, o)
							}
						}
					}
				}
			}
		}
		if n.Exit {
			return false, false
		}
		var next *GNode
		switch len(n.Succ) {
		case 0:
			return false, false
		case 1:
			next = n.Succ[0].To
		default:
			for _, e := range n.Succ {
				if e.Cond == nil || e.Tag != nil {
					return false, false
				}
				if v, ok := eval(e.Cond); ok {
					if v == e.Taken {
						next = e.To
					}
				} else {
					return false, false
				}
			}
		}
		n = next
	}
	return false, false
}

func identOfExpr(e ast.Expr) *ast.Ident {
	id, _ := ast.Unparen(e).(*ast.Ident)
	return id
}

// EvalUnder evaluates a boolean expression under a valuation of the tracked variables: +1 true, -1 false, 0 unknown.
func (g *Graph) EvalUnder(e ast.Expr, v Val) int {
	switch g.eval(e, v) {
	case tvT:
		return 1
	case tvF:
		return -1
	}
	return 0
}

// BoolResultUnder evaluates a function with a single boolean result under an assumption about non-tracked atoms:
// canTrue / canFalse tell which results some feasible path can return (an undecided result counts as both).
func (g *Graph) BoolResultUnder(assumed func(Fact) bool) (canTrue, canFalse bool) {
	vals := g.ReachVals(Query{FromEntry: true, Assume: assumed, AvoidEdge: g.Infeasible(assumed)})
	prevAssumed, prevAt := g.assumedFn, g.evalAt
	g.assumedFn = assumed
	defer func() { g.assumedFn, g.evalAt = prevAssumed, prevAt }()
	for n, vs := range vals {
		ret, ok := n.Node.(*ast.ReturnStmt)
		if !ok {
			continue
		}
		if len(ret.Results) != 1 {
			return true, true
		}
		for v := range vs {
			switch g.eval(ret.Results[0], v) {
			case tvT:
				canTrue = true
			case tvF:
				canFalse = true
			default:
				canTrue, canFalse = true, true
			}
		}
	}
	return
}

// BodyOf returns the body (of the declaration or literal) the graph was built for.
func BodyOf(g *Graph) ast.Node {
	if g == nil || g.Body == nil {
		return nil
	}
	return g.Body
}
