package main

import (
	"encoding/json"
	"flag"
	"fmt"
	"os"
	"path/filepath"
	"sort"
	"strings"
	"time"

	"sopverif/eng"
	"sopverif/rules"
)

// Mutant is a seeded change: a set of exact-substring replacements in repository files.
type Mutant struct {
	Name   string   `json:"name"`
	Expect []string `json:"expect"` // rule ids of which at least one must report; empty => benign (no report allowed)
	Note   string   `json:"note,omitempty"`
	Props  []string `json:"props,omitempty"` // benign edits: the properties whose rules look at the edited code
	Edits  []struct {
		File string `json:"file"`
		Old  string `json:"old"`
		New  string `json:"new"`
		Nth  int    `json:"nth,omitempty"` // replace the n-th occurrence (1-based); 0: the anchor must occur exactly once
	} `json:"edits"`
}

type mutantResult struct {
	Name     string   `json:"name"`
	Status   string   `json:"status"` // detected | missed | skipped | invalid | silent | false-alarm
	Expected []string `json:"expected"`
	Reported []string `json:"reported"`
	Detail   string   `json:"detail,omitempty"`
}

func loadMutants(verif, prop string) ([]Mutant, error) {
	b, err := os.ReadFile(filepath.Join(verif, "mutants", prop+".json"))
	if err != nil {
		if os.IsNotExist(err) {
			return nil, nil
		}
		return nil, err
	}
	var ms []Mutant
	if err := json.Unmarshal(b, &ms); err != nil {
		return nil, fmt.Errorf("mutants/%s.json: %w", prop, err)
	}
	return ms, nil
}

// runMutant analyses one mutant through a go/packages overlay of the *current* tree.
func runMutant(repo, verif, prop string, known []eng.KnownFinding, m Mutant) mutantResult {
	res := mutantResult{Name: m.Name, Expected: m.Expect}
	overlay := map[string][]byte{}
	for _, e := range m.Edits {
		abs := filepath.Join(repo, e.File)
		src, ok := overlay[abs]
		if !ok {
			b, err := os.ReadFile(abs)
			if err != nil {
				res.Status, res.Detail = "skipped", "file missing: "+e.File
				return res
			}
			src = b
		}
		cnt := strings.Count(string(src), e.Old)
		if (e.Nth == 0 && cnt != 1) || (e.Nth > 0 && cnt < e.Nth) {
			res.Status, res.Detail = "skipped", fmt.Sprintf("edit does not apply to the current tree (%d occurrences of the anchor text in %s)", cnt, e.File)
			return res
		}
		if e.Nth <= 1 {
			overlay[abs] = []byte(strings.Replace(string(src), e.Old, e.New, 1))
		} else {
			str := string(src)
			idx, from := -1, 0
			for i := 0; i < e.Nth; i++ {
				j := strings.Index(str[from:], e.Old)
				idx = from + j
				from = idx + len(e.Old)
			}
			overlay[abs] = []byte(str[:idx] + e.New + str[idx+len(e.Old):])
		}
	}
	p, _, err := eng.Normalize(repo, overlay, baseline())
	if err != nil {
		res.Status, res.Detail = "invalid", "mutant does not type-check: "+err.Error()
		return res
	}
	pr := rules.Get(prop)
	c := eng.NewCtx(p, prop, "quick")
	func() {
		defer func() {
			if r := recover(); r != nil {
				rr := c.Rule(prop+".PANIC", "engine", "the analyser must not panic", 0)
				rr.Unknown("analyser", 0, fmt.Sprintf("analyser panic: %v", r))
			}
		}()
		pr.Run(c)
	}()
	tmp, _ := os.MkdirTemp("", "sopverif-mut-")
	defer os.RemoveAll(tmp)
	out := c.Finish(tmp, known, 0, time.Now(), nil, "")
	rep := map[string]bool{}
	for _, r := range c.Rules {
		if r.Info.Violated > 0 || r.Info.Undecided > 0 {
			rep[r.Info.ID] = true
		}
	}
	for k := range rep {
		res.Reported = append(res.Reported, k)
	}
	sort.Strings(res.Reported)
	if len(m.Expect) == 0 {
		if out.Violations == 0 {
			res.Status = "silent"
		} else {
			res.Status = "false-alarm"
			var ls []string
			for _, l := range out.Lines {
				if !strings.HasPrefix(l, "KNOWN-FINDING") {
					ls = append(ls, l)
				}
			}
			res.Detail = strings.Join(ls, "\n")
		}
		return res
	}
	for _, e := range m.Expect {
		if rep[e] {
			res.Status = "detected"
		}
	}
	if res.Status == "" {
		res.Status = "missed"
		if out.Violations > 0 {
			res.Detail = "reported by other rules only"
		}
	}
	return res
}

func mutantsCmd(args []string) int {
	fs := flag.NewFlagSet("mutants", flag.ExitOnError)
	prop := fs.String("property", "all", "property id or all")
	only := fs.String("only", "", "run only the mutant with this name")
	verbose := fs.Bool("v", false, "print every report line of a false alarm / miss")
	repo := fs.String("repo", "/repo", "")
	verif := fs.String("verif", "/verif", "")
	_ = fs.Parse(args)
	known, _ := eng.LoadKnown(filepath.Join(*verif, "known_findings.json"))
	ids := []string{*prop}
	if *prop == "all" {
		ids = append(rules.IDs(), "benign")
	}
	rc := 0
	for _, id := range ids {
		file := id
		ms, err := loadMutants(*verif, file)
		if err != nil {
			fmt.Fprintln(os.Stderr, err)
			return 2
		}
		for _, m := range ms {
			if *only != "" && m.Name != *only {
				continue
			}
			props := []string{id}
			if id == "benign" {
				props = m.Props
				m.Expect = nil
			}
			for _, pid := range props {
				r := runMutant(*repo, *verif, pid, known, m)
				fmt.Printf("%-7s %-12s %-50s expected=%v reported=%v %s\n", pid, r.Status, r.Name, r.Expected, r.Reported, firstLine(r.Detail))
				if r.Status == "missed" || r.Status == "false-alarm" || r.Status == "invalid" {
					rc = 1
					if *verbose {
						for _, l := range strings.Split(r.Detail, "\n") {
							if !strings.HasPrefix(l, "KNOWN-FINDING") {
								fmt.Println("        " + l)
							}
						}
					}
				}
			}
		}
	}
	return rc
}

func firstLine(s string) string {
	if i := strings.IndexByte(s, '\n'); i >= 0 {
		return s[:i]
	}
	return s
}

// sensitivity replays the seeded mutants of a property against the current tree (thorough tier): every mutant
// that still applies and type-checks must be reported by one of its expected rules, every benign edit must stay
// silent. It checks the checker; the only way it changes the verdict is when a rule has gone blind.
func sensitivity(c *eng.Ctx, repo, verif, prop string, known []eng.KnownFinding) {
	r := c.Rule(prop+".SENS", "sensitivity replay", "every applicable seeded mutant of this property is reported by an expected rule; every behaviour-preserving edit stays silent", 0)
	ms, err := loadMutants(verif, prop)
	if err != nil {
		r.Unknown("mutants/"+prop+".json", 0, err.Error())
		return
	}
	benign, err := loadMutants(verif, "benign")
	if err != nil {
		r.Unknown("mutants/benign.json", 0, err.Error())
		return
	}
	type job struct {
		m      Mutant
		benign bool
	}
	var jobs []job
	for _, m := range ms {
		jobs = append(jobs, job{m, false})
	}
	for _, m := range benign {
		m.Expect = nil
		for _, pp := range m.Props {
			if pp == prop {
				jobs = append(jobs, job{m, true})
			}
		}
	}
	results := make([]mutantResult, len(jobs))
	sem := make(chan struct{}, 4)
	done := make(chan int)
	for i := range jobs {
		go func(i int) {
			sem <- struct{}{}
			results[i] = runMutant(repo, verif, prop, known, jobs[i].m)
			<-sem
			done <- i
		}(i)
	}
	for range jobs {
		<-done
	}
	counts := map[string]int{}
	var list []mutantResult
	for i, res := range results {
		counts[res.Status]++
		list = append(list, res)
		name := "mutant:" + res.Name
		if jobs[i].benign {
			name = "benign:" + res.Name
		}
		switch res.Status {
		case "detected":
			r.Ok(name, 0, fmt.Sprintf("reported by %v", res.Reported))
		case "silent":
			r.Ok(name, 0, "behaviour-preserving edit: no report")
		case "missed":
			r.Bad(name, 0, fmt.Sprintf("seeded fault not reported by %v (reported: %v): the rule has gone blind", res.Expected, res.Reported))
		case "false-alarm":
			r.Bad(name, 0, "behaviour-preserving edit raised an alarm: "+res.Detail)
		case "invalid":
			r.Unknown(name, 0, res.Detail)
		case "skipped":
			c.Notes = append(c.Notes, "mutant skipped: "+res.Name+": "+res.Detail)
		}
	}
	c.Extra["mutants"] = map[string]any{"applied": len(jobs) - counts["skipped"], "detected": counts["detected"], "silent_benign": counts["silent"], "skipped": counts["skipped"], "missed": counts["missed"], "false_alarms": counts["false-alarm"], "results": list}
}
