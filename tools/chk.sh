#!/bin/sh
# usage: chk.sh <refactor-id|seed-id> [property|all] : scratch copy with the patch applied, checks run, reports printed
id=$1; prop=${2:-all}; d=/tmp/chk-$$
bin=${SOPVERIF:-/verif/bin/sopverif}
mkdir -p $d; if [ -d /verif/benign_refactors/$id ]; then /verif/tools/apply_refactor.sh $id $d/r >/dev/null 2>&1; else /verif/tools/apply_seed.sh $id $d/r >/dev/null 2>&1; fi
mkdir -p $d/v; cp /verif/known_findings.json $d/v/
$bin check --property $prop --repo $d/r --verif $d/v 2>&1 | grep -E "^\s+(violated|undecided) \[" | cut -c1-${CUT:-500}
rm -rf $d
