#!/usr/bin/env python3
"""materialize.py <mutants-file.json> <name> <dir>: copies /repo (without .git) to <dir> and applies the named edit
set; for debugging a rule against one mutant / benign edit. Remove <dir> afterwards."""
import json, sys, subprocess
f, name, d = sys.argv[1:4]
ms = [m for m in json.load(open(f)) if m["name"] == name]
assert ms, "no such edit"
subprocess.run(["rsync", "-a", "--delete", "--exclude", ".git", "/repo/", d + "/"], check=True)
for e in ms[0]["edits"]:
    p = d + "/" + e["file"]; s = open(p).read(); n = e.get("nth", 0)
    if n <= 1:
        assert s.count(e["old"]) >= 1, "anchor missing: " + e["old"][:40]
        s = s.replace(e["old"], e["new"], 1)
    else:
        i = -1
        for _ in range(n): i = s.index(e["old"], i + 1)
        s = s[:i] + e["new"] + s[i + len(e["old"]):]
    open(p, "w").write(s)
print("materialized", name, "in", d)
