#!/usr/bin/env python3
"""For every `fix:` commit of /repo: reverse the commit on a scratch copy of the working tree and run every check
against it. Prints the obligations (rule|construct) that report the returned defect; used to key the `fixed` entries
of known_findings.json and to confirm that a fixed entry suppresses nothing."""
import json, os, subprocess, re, shutil, sys
V="/verif"; S="/tmp/revmatrix-repo-%d"%os.getpid(); SV="/tmp/revmatrix-verif-%d"%os.getpid()
log=subprocess.check_output(["git","-C","/repo","log","--format=%h %s"],text=True).splitlines()
fixes=[l.split(" ",1) for l in log if l.split(" ",1)[1].startswith("fix:")]
only=sys.argv[1:]
res={}
for h,subj in reversed(fixes):
    if only and h not in only: continue
    subprocess.run(["rsync","-a","--delete","--exclude",".git","/repo/",S+"/"],check=True)
    diff=subprocess.check_output(["git","-C","/repo","show","--format=",h])
    r=subprocess.run(["patch","-R","-p1","-s","-d",S],input=diff,capture_output=True)
    if r.returncode!=0:
        print(h,"REVERSE PATCH FAILED",r.stdout.decode()[:300]); continue
    shutil.rmtree(SV,ignore_errors=True); os.makedirs(SV); shutil.copy(V+"/known_findings.json",SV)
    out=subprocess.run([os.environ.get("SOPVERIF",V+"/bin/sopverif"),"check","--property","all","--repo",S,"--verif",SV],capture_output=True,text=True).stdout
    keys=[]
    for f in sorted(os.listdir(SV+"/evidence/violations")) if os.path.isdir(SV+"/evidence/violations") else []:
        j=json.load(open(SV+"/evidence/violations/"+f))
        keys.append(j.get("key") or (j.get("rule","")+"|"+j.get("construct","")))
    res[h]={"subject":subj,"reported":keys}
    print(h,subj[:70]); 
    for k in keys: print("    ",k)
    sys.stdout.flush()
shutil.rmtree(S,ignore_errors=True); shutil.rmtree(SV,ignore_errors=True)
json.dump(res,open(V+"/tools/revert_matrix.json","w"),indent=1)
