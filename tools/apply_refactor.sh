#!/bin/sh
# usage: apply_refactor.sh <benign_refactors id> <dir>: scratch copy of /repo with the refactoring applied
rsync -a --delete --exclude .git /repo/ "$2"/ && cd "$2" && patch -p1 -s < /verif/benign_refactors/$1/patch.diff && echo applied $1 in $2
