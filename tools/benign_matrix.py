#!/usr/bin/env python3
"""Independent behaviour-preserving refactorings (written by sub-agents that saw only the property text and a scratch
worktree): stores /tmp/wt/<prop>/_benign/<x>/ as /verif/benign_refactors/<prop>-<x>/ and runs every check against a
scratch copy of /repo with the patch applied. Every report is a candidate false alarm (to be judged: is the refactoring
really behaviour-preserving?). Writes benign_refactors/<id>/result.json.
  usage: benign_matrix.py [--import] [ids...]"""
import json, os, subprocess, glob, re, shutil, sys
V="/verif"; S="/tmp/benignmatrix-repo-%d"%os.getpid(); SV="/tmp/benignmatrix-verif-%d"%os.getpid()
args=sys.argv[1:]
if "--import" in args:
    args.remove("--import")
    for d in sorted(glob.glob("/tmp/wt/C*/_benign/r*")):
        prop=d.split("/")[3]; x=os.path.basename(d)
        if not os.path.exists(d+"/patch.diff"): continue
        dst="%s/benign_refactors/%s-%s"%(V,prop,x)
        os.makedirs(dst,exist_ok=True)
        shutil.copy(d+"/patch.diff",dst)
        if os.path.exists(d+"/README.md"): shutil.copy(d+"/README.md",dst+"/README.agent.md")
head=subprocess.check_output("git -C /repo rev-parse --short HEAD",shell=True,text=True).strip()
for d in sorted(glob.glob(V+"/benign_refactors/C*-r*")):
    bid=os.path.basename(d)
    if args and bid not in args: continue
    subprocess.run(["rsync","-a","--delete","--exclude",".git","/repo/",S+"/"],check=True)
    r=subprocess.run("cd %s && patch -p1 -s < %s/patch.diff"%(S,d),shell=True,capture_output=True,text=True)
    if r.returncode!=0:
        print(bid,"PATCH DOES NOT APPLY",(r.stdout+r.stderr)[:200]); continue
    shutil.rmtree(SV,ignore_errors=True); os.makedirs(SV); shutil.copy(V+"/known_findings.json",SV)
    out=subprocess.run([os.environ.get("SOPVERIF",V+"/bin/sopverif"),"check","--property","all","--repo",S,"--verif",SV],capture_output=True,text=True).stdout
    lines=[l.strip() for l in out.splitlines() if re.match(r"^\s+(violated|undecided) \[",l)]
    load=[l for l in out.splitlines() if "cannot load" in l or "type errors" in l]
    rules=sorted(set(re.findall(r"\[(C\d+\.[A-Za-z0-9]+)\]"," ".join(lines))))
    res={"id":bid,"property":bid.split("-")[0],"checked_at_repo_commit":head,"reported_rules":rules,"reports":lines,"load_errors":load}
    old={}
    if os.path.exists(d+"/result.json"): old=json.load(open(d+"/result.json"))
    for k in ("judgement","note","initial_reported_rules"): 
        if k in old: res[k]=old[k]
    json.dump(res,open(d+"/result.json","w"),indent=1)
    print(bid,"SILENT" if not rules and not load else "REPORTED %s %s"%(rules,load[:1]),flush=True)
shutil.rmtree(S,ignore_errors=True); shutil.rmtree(SV,ignore_errors=True)
