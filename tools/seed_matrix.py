#!/usr/bin/env python3
"""Runs every claimed check against every confirmed seeded change (on a scratch copy of /repo with the patch applied,
so /repo itself stays untouched) and records which rules report it in seeded/<id>/meta.json -> detected_by."""
import json, os, subprocess, glob, re, shutil, sys
V="/verif"; S="/tmp/seedmatrix-repo-%d"%os.getpid(); SV="/tmp/seedmatrix-verif-%d"%os.getpid()
only=sys.argv[1:] 
rows=[]
for d in sorted(glob.glob(V+"/seeded/C*-*")):
    sid=os.path.basename(d)
    if only and sid not in only: continue
    meta=json.load(open(d+"/meta.json"))
    subprocess.run(["rsync","-a","--delete","--exclude",".git","/repo/",S+"/"],check=True)
    r=subprocess.run(["git","apply","--directory",S.lstrip("/"),"--unsafe-paths",d+"/patch.diff"],cwd="/",capture_output=True,text=True)
    if r.returncode!=0:
        r=subprocess.run("cd %s && patch -p1 -s < %s/patch.diff"%(S,d),shell=True,capture_output=True,text=True)
    base_note=""
    if r.returncode!=0:
        # the patch was written against an older /repo commit and conflicts with a later fix: check it against its base
        base=meta.get("base_commit","")
        shutil.rmtree(S,ignore_errors=True); os.makedirs(S)
        ok=base and subprocess.run("git -C /repo archive %s | tar -x -C %s"%(base,S),shell=True).returncode==0
        if ok:
            ok=subprocess.run("cd %s && patch -p1 -s < %s/patch.diff"%(S,d),shell=True,capture_output=True,text=True).returncode==0
        if not ok:
            print(sid,"PATCH DOES NOT APPLY",r.stderr[:200]); meta["detected_by"]="patch does not apply to current /repo nor to its base"; json.dump(meta,open(d+"/meta.json","w"),indent=1); continue
        base_note="patch conflicts with a later fix commit of /repo; checked against its base commit "+base
    shutil.rmtree(SV,ignore_errors=True); os.makedirs(SV); shutil.copy(V+"/known_findings.json",SV)
    out=subprocess.run([os.environ.get("SOPVERIF",V+"/bin/sopverif"),"check","--property","all","--repo",S,"--verif",SV],capture_output=True,text=True).stdout
    rules=sorted(set(re.findall(r"^\s+(?:violated|undecided) \[(C\d+\.[A-Za-z0-9]+)\]",out,re.M)))
    own=[x for x in rules if x.startswith(meta["property"]+".")]
    meta["detected_by"]={"own_property_rules":own,"all_rules":rules,"checked_at_repo_commit":subprocess.check_output("git -C /repo rev-parse --short HEAD",shell=True,text=True).strip()}
    if base_note: meta["detected_by"]["note"]=base_note
    json.dump(meta,open(d+"/meta.json","w"),indent=1)
    rows.append((sid,own,[x for x in rules if x not in own]))
    print(sid, "own:",own, "others:",[x for x in rules if x not in own], flush=True)
shutil.rmtree(S,ignore_errors=True); shutil.rmtree(SV,ignore_errors=True)
