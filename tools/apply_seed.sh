#!/bin/sh
# usage: apply_seed.sh <prop>-<x> <dir> : scratch copy of /repo at <dir> with seeded/<prop>-<x>/patch.diff applied
set -e
rm -rf "$2"; mkdir -p "$2"
rsync -a --exclude .git /repo/ "$2"/
cd "$2" && git init -q . && git apply /verif/seeded/$1/patch.diff
