#!/usr/bin/env python3
"""Confirms a seeded change delivered by a sub-agent in /tmp/wt/<prop>/_seed/<x>/ and, when confirmed,
stores it as /verif/seeded/<prop>-<x>/ (patch.diff, demo/, meta.json).
  usage: seed_verify.py C05 a [--keep-unconfirmed]
Steps (all in the scratch worktree, never in /repo): apply patch -> go build -> full suite (must pass) ->
place demo -> demo must FAIL -> revert patch -> demo must PASS -> clean."""
import sys, os, subprocess, json, re, shutil, glob
prop, x = sys.argv[1], sys.argv[2]
wt = "/tmp/wt/%s" % prop
seed = "%s/_seed/%s" % (wt, x)
env = dict(os.environ, GOFLAGS="-mod=mod", GOPROXY="off")
env.pop("QUEUE_ACTIONS_METRICS", None)
env.pop("GOSUMDB", None); env.pop("GOTOOLCHAIN", None)
def sh(cmd, cwd=wt, timeout=1500):
    p = subprocess.run(["bash","-c",cmd], cwd=cwd, env=env, stdout=subprocess.PIPE, stderr=subprocess.STDOUT, text=True, timeout=timeout)
    return p.returncode, p.stdout
def clean():
    sh("git checkout -- . && git clean -fdq -e _seed")
clean()
log = {}
rc, out = sh("git apply --check %s/patch.diff && git apply %s/patch.diff" % (seed, seed))
if rc != 0:
    print("patch does not apply:", out); sys.exit(2)
rc, out = sh("go build ./... 2>&1 | tail -20")
rc_s, out_s = sh("go test -vet=off -count=1 ./... 2>&1 | grep -v '^ok\\|no test files' | tail -30")
suite_ok = (out_s.strip() == "")
log["suite_on_changed_tree"] = "pass" if suite_ok else out_s[-2000:]
# place demo files
placed = []
pkgs = set()
for f in sorted(glob.glob(seed + "/demo/**/*", recursive=True)):
    if os.path.isdir(f): continue
    head = "".join(open(f, errors="replace").readlines()[:3])
    m = re.search(r"place at:\s*(\S+)", head)
    if not m:
        print("no 'place at' in", f); continue
    dest = os.path.join(wt, m.group(1))
    os.makedirs(os.path.dirname(dest), exist_ok=True)
    shutil.copy(f, dest); placed.append(m.group(1))
    if dest.endswith("_test.go"): pkgs.add("./" + os.path.dirname(m.group(1)))
def run_demo():
    if pkgs:
        return sh("go test -vet=off -count=1 -run 'Seed|seed|Demo|demo' %s 2>&1 | tail -40" % " ".join(sorted(pkgs)))
    # program / script demo: look for run instructions
    for p_ in placed:
        if p_.endswith(".sh"):
            return sh("bash %s %s 2>&1 | tail -40; exit ${PIPESTATUS[0]}" % (p_, wt), timeout=600)
        if p_.endswith("main.go"):
            return sh("go run ./%s 2>&1 | tail -40" % os.path.dirname(p_))
    return 99, "no runnable demo"
rc1, out1 = run_demo()
if "HistogramObserve" in out1 or "nil pointer" in out1:
    env["QUEUE_ACTIONS_METRICS"] = "no"
    rc1, out1 = run_demo()
fails_changed = ("FAIL" in out1) or (rc1 != 0 and "ok \t" not in out1)
log["demo_on_changed_tree"] = out1[-3000:]
# revert only the product change
sh("git apply -R %s/patch.diff" % seed)
rc2, out2 = run_demo()
passes_pristine = ("FAIL" not in out2) and ("ok \t" in out2 or rc2 == 0)
log["demo_on_pristine_tree"] = out2[-1500:]
clean()
confirmed = suite_ok and fails_changed and passes_pristine
print("suite_ok=%s demo_fails_on_change=%s demo_passes_pristine=%s => %s" % (suite_ok, fails_changed, passes_pristine, "CONFIRMED" if confirmed else "NOT CONFIRMED"))
if not confirmed:
    print(json.dumps(log, indent=1)[:6000])
    if "--keep-unconfirmed" not in sys.argv: sys.exit(1)
dst = "/verif/seeded/%s-%s" % (prop, x)
shutil.rmtree(dst, ignore_errors=True)
os.makedirs(dst)
shutil.copy(seed + "/patch.diff", dst + "/patch.diff")
shutil.copytree(seed + "/demo", dst + "/demo")
readme = open(seed + "/README.md", errors="replace").read() if os.path.exists(seed + "/README.md") else ""
open(dst + "/README.agent.md", "w").write(readme)
meta = {"property": prop, "variant": x, "confirmed": confirmed, "base_commit": subprocess.check_output("git -C %s rev-parse --short HEAD" % wt, shell=True, text=True).strip(),
        "needs_to_manifest": "see README.agent.md", "what_i_ran": {
            "apply": "git apply patch.diff (scratch worktree /tmp/wt/%s)" % prop,
            "suite": "go build ./... && go test -vet=off -count=1 ./... (QUEUE_ACTIONS_METRICS=no): " + ("all packages ok" if suite_ok else "FAILED"),
            "demo_changed": "demo placed at %s; go test -run 'Seed|Demo': FAIL as expected" % placed if fails_changed else "demo did not fail",
            "demo_pristine": "same demo after git apply -R: pass" if passes_pristine else "demo did not pass on pristine",
        }, "log": log, "detected_by": None}
json.dump(meta, open(dst + "/meta.json", "w"), indent=1)
print("stored", dst)
