#!/usr/bin/env python3
"""Regenerates the 'as built' part of DESIGN.md (between the GENERATED markers) from what the machinery produced:
evidence/*.json (rules, instances), mutants/*.json, seeded/*/meta.json, known_findings.json."""
import json, glob, os, re
V = os.path.dirname(os.path.dirname(os.path.abspath(__file__)))
props = [json.loads(l) for l in open(V + "/properties.jsonl")]
known = json.load(open(V + "/known_findings.json"))
out = []
tot_rules = tot_obl = tot_mut = 0
for p in props:
    pid = p["id"]
    ev = json.load(open("%s/evidence/%s.json" % (V, pid)))
    cov = ev["coverage"]
    out.append("### %s - %s\n" % (pid, p["title"]))
    out.append(cov["explanation"] + "\n")
    out.append("| rule | kind | what is decided | instances (min) |")
    out.append("|---|---|---|---|")
    for r in cov["rules"]:
        if r["id"].endswith(".SENS"): continue
        tot_rules += 1; tot_obl += r["instances"]
        out.append("| %s | %s | %s | %d (%d) |" % (r["id"], r["kind"], r["text"].replace("|", "/"), r["instances"], r["min_instances"]))
    ms = json.load(open("%s/mutants/%s.json" % (V, pid))) if os.path.exists("%s/mutants/%s.json" % (V, pid)) else []
    tot_mut += len(ms)
    by = {}
    for m in ms:
        for e in m["expect"]: by.setdefault(e, []).append(m["name"])
    out.append("")
    out.append("Seeded mutants (%d, all detected by the listed rule on the current tree): " % len(ms) + "; ".join("%s: %s" % (k, ", ".join(v)) for k, v in sorted(by.items())) + ".\n")
    kf = [k for k in known if k["property"] == pid]
    for k in kf:
        if k["status"] == "known":
            out.append("* KNOWN FINDING `%s`: %s" % (k["key"], k["summary"]))
    for k in kf:
        if k["status"] == "fixed":
            out.append("* fixed: property=%s %s `%s` - %s" % (pid, k.get("commit", ""), k["key"], k["summary"]))
    seeds = sorted(glob.glob("%s/seeded/%s-*/meta.json" % (V, pid)))
    for s in seeds:
        m = json.load(open(s))
        d = m.get("detected_by") or {}
        own = d.get("own_property_rules") if isinstance(d, dict) else None
        out.append("* independent seeded change `%s`: detected by %s%s" % (os.path.basename(os.path.dirname(s)), ", ".join(own) if own else "**nothing (missed)**", (" (also: " + ", ".join(x for x in d.get("all_rules", []) if x not in own) + ")") if own and isinstance(d, dict) and any(x not in own for x in d.get("all_rules", [])) else ""))
    out.append("")
summary = "Totals on the current tree: %d rules, %d obligations, %d seeded mutants, %d independent seeded changes (%d detected).\n" % (
    tot_rules, tot_obl, tot_mut, len(glob.glob(V + "/seeded/C*-*")),
    sum(1 for s in glob.glob(V + "/seeded/C*-*/meta.json") if isinstance(json.load(open(s)).get("detected_by"), dict) and json.load(open(s))["detected_by"].get("own_property_rules")))
text = summary + "\n" + "\n".join(out)
d = open(V + "/DESIGN.md").read()
b, e = "<!-- BEGIN GENERATED:asbuilt -->", "<!-- END GENERATED:asbuilt -->"
if b in d:
    d = d[:d.index(b) + len(b)] + "\n" + text + "\n" + d[d.index(e):]
    open(V + "/DESIGN.md", "w").write(d)
    print("DESIGN.md updated;", summary)
else:
    print("markers not found")
