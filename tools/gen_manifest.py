#!/usr/bin/env python3
"""Regenerates /verif/MANIFEST.json from the claims table below (keeps it valid at all times)."""
import json, os, subprocess
V = os.path.dirname(os.path.dirname(os.path.abspath(__file__)))
props = [json.loads(l) for l in open(os.path.join(V, "properties.jsonl"))]
claims = json.load(open(os.path.join(V, "tools", "claims.json")))
checks = []
na = []
for p in props:
    pid = p["id"]
    c = claims.get(pid)
    if not c or not c.get("claimed"):
        na.append({"property_id": pid, "reason": (c or {}).get("reason", "not claimed yet: the static rules for this property are still being built (DESIGN.md section 10); this is not a statement that the family cannot address it")})
        continue
    checks.append({
        "property_id": pid,
        "quick_cmd": "./check %s quick" % pid,
        "thorough_cmd": "./check %s thorough" % pid,
        "evidence_file": "/verif/evidence/%s.json" % pid,
        "replay_cmd_template": "bin/sopverif explain {path}",
        "engine": "sopverif",
        "level_claimed": {"category": "other", "text": c["text"], "design_ref": "DESIGN.md section 4, " + pid},
        "level_note": c["note"],
        "technique": c["technique"],
    })
m = {
    "version": 1,
    "setup_cmd": "./setup.sh",
    "hooks": {
        "guard": "verif",
        "enable": "none needed: the checker only reads /repo's source (go/packages + go/types + go/cfg); nothing in /repo is instrumented, no build tag is used",
        "baseline_off_cmd": "cd /repo && GOFLAGS=-mod=mod GOPROXY=off go test -vet=off -count=1 -timeout 25m ./...",
        "source_commits": [],
        "add_only": True,
    },
    "engines": [{
        "name": "sopverif",
        "path": "/verif/checker",
        "serves_properties": [c["property_id"] for c in checks],
        "kind_free_text": "repository-specific static analyser (Go, x/tools v0.29.0): go/packages type-checked program, flag-sensitive path queries over go/cfg, lock-set analysis with caller-holds and wrapper summaries, AST provenance, who-calls by object identity, table/twin/idiom rules, bash structure extractor; thorough tier replays seeded mutants through go/packages overlays",
    }],
    "checks": checks,
    "notes": "All claims are level 'other': structural necessary conditions decided for every path / call site / access of the current source, not the behaviour itself. Known findings: known_findings.json. Quick = rules on the current tree (~5 s); thorough = the same rules + sensitivity replay of the seeded mutants and benign edits under mutants/ (checks that no rule has gone blind on the edited tree).",
    "not_applicable": na,
}
json.dump(m, open(os.path.join(V, "MANIFEST.json"), "w"), indent=1)
print("checks:", len(checks), "not_applicable:", len(na))
