#!/bin/sh
# usage: seed_check.sh <prop> <x> [all]  : applies seeded/<prop>-<x>/patch.diff to /repo, runs the property's quick check
# (or every claimed check with 'all'), and reverts /repo straight afterwards.
prop=$1; x=$2
cd /verif || exit 2
git -C /repo apply /verif/seeded/$prop-$x/patch.diff || { echo "patch does not apply to /repo"; exit 2; }
trap 'git -C /repo checkout -- . ' EXIT
if [ "$3" = all ]; then
  for p in $(bin/sopverif list | cut -d' ' -f1); do VERIF_DIR=/tmp/seedcheck-verif bin/sopverif check --property $p --verif /tmp/seedcheck-verif 2>&1 | grep -v '^KNOWN' | tail -4; done
else
  mkdir -p /tmp/seedcheck-verif; cp known_findings.json /tmp/seedcheck-verif/
  bin/sopverif check --property $prop --verif /tmp/seedcheck-verif 2>&1 | grep -v '^KNOWN' | tail -12
fi
rm -rf /tmp/seedcheck-verif
